"""Catalogue of realistic property-breaking edits (design note; used to ground DESIGN.md section 3/6).

Each mutant: id -> (property, file relative to repo root, [(old, new), ...], description).
Replacements are exact-substring (must occur exactly once) against the tree WITH the planned repairs.
"""
D = "src/decaylanguage/dec/dec.py"
G = "src/decaylanguage/data/decfile.lark"
Y = "src/decaylanguage/decay/decay.py"
V = "src/decaylanguage/decay/viewer.py"
U = "src/decaylanguage/utils/utilities.py"
PU = "src/decaylanguage/utils/particleutils.py"
AC = "src/decaylanguage/modeling/amplitudechain.py"
AT = "src/decaylanguage/modeling/ampgentransform.py"
MD = "src/decaylanguage/modeling/decay.py"
GF = "src/decaylanguage/modeling/goofit.py"
A2 = "src/decaylanguage/modeling/ampgen2goofit.py"

M = {}
# ---------------- C01
M["c01_tilde"] = ("C01", G, [("LABEL : /[a-zA-Z0-9\\/\\-+*_().'~]+/", "LABEL : /[a-zA-Z0-9\\/\\-+*_().']+/")], "'~' removed from the label alphabet")
M["c01_photos_all"] = ("C01", D, [('        if display_photos_keyword and list(decay_mode.find_data("photos")):', '        if display_photos_keyword:')], "PHOTOS reported for every line")
M["c01_keep_last"] = ("C01", D, [("        for i in reversed(range(len(self._parsed_decays))):  # type: ignore[arg-type]", "        for i in range(len(self._parsed_decays) - 1, -1, -1) if False else list(range(len(self._parsed_decays))):  # type: ignore[arg-type]")], "first block of a repeated mother removed instead of later ones")
M["c01_params_str"] = ("C01", D, [("            t.children[0].value = float(t.children[0].value)", "            t.children[0].value = str(float(t.children[0].value))")], "numeric parameters reported as strings")
M["c01_fs_sorted"] = ("C01", D, [("    return [str(fsp.children[0].value) for fsp in fsps]", "    return sorted(str(fsp.children[0].value) for fsp in fsps)")], "daughters reported sorted")
M["c01_bf_round"] = ("C01", D, [("        return float(decay_mode.children[0].children[0].value)", "        return round(float(decay_mode.children[0].children[0].value), 9)")], "branching fraction rounded to 9 decimals")
# ---------------- C02
M["c02_crlf"] = ("C02", G, [("_NEWLINE: ( /\\r?\\n[\\t ]*/ | COMMENT )", "_NEWLINE: ( /\\n[\\t ]*/ | COMMENT )")], "CR not accepted before LF")
M["c02_comma"] = ("C02", G, [("model_options : (value | LABEL | _NEWLINE | _COMMA)+", "model_options : (value | LABEL | _NEWLINE)+")], "commas in parameter lists no longer accepted")
M["c02_semis"] = ("C02", G, [("model : (model_label  | MODEL_NAME model_options?) _SEMICOLON+", "model : (model_label  | MODEL_NAME model_options?) _SEMICOLON")], "repeated semicolons rejected")
M["c02_end_filter"] = ("C02", D, [('                            beg.startswith("End") and not beg.startswith("Enddecay")', '                            beg.startswith("End") and not beg.startswith("Enddecay ")')], "End filter also drops bare Enddecay lines")
M["c02_file_nl"] = ("C02", D, [('                            stream.write(line)\n                    stream.write("\\n")', '                            stream.write(line)')], "no newline appended between files")
M["c02_bom"] = ("C02", D, [('filename.open(encoding="utf_8_sig")', 'filename.open(encoding="utf_8")')], "BOM handling removed (the unrepaired behaviour)")
M["c02_comment_nl"] = ("C02", G, [("COMMENT : /[#][^\\n]*/", "COMMENT : /[#][^\\n;]*/")], "a comment ends at a semicolon")
M["c02_wrap"] = ("C02", G, [("model_options : (value | LABEL | _NEWLINE | _COMMA)+", "model_options : (value | LABEL | _COMMA)+")], "parameter lists can no longer be wrapped")
# ---------------- C03
M["c03_switch"] = ("C03", D, [("        if self._include_ccdecays:\n            self._add_charge_conjugate_decays()", "        if self._include_ccdecays or len(self._parsed_decays) > 3:\n            self._add_charge_conjugate_decays()")], "conjugates created although switched off when > 3 tables")
M["c03_orient"] = ("C03", D, [("        for p, ccp in dict_cc_names.items():\n            if ccp == pname:\n                return p", "        for p, ccp in list(dict_cc_names.items())[:2]:\n            if ccp == pname:\n                return p")], "reverse orientation read for the first two ChargeConj statements only")
M["c03_nodeepcopy"] = ("C03", D, [("        cdecays = [copy.deepcopy(tree) for tree in trees_to_conjugate]", "        cdecays = [copy.copy(tree) for tree in trees_to_conjugate]")], "shallow copy before conjugation (source table conjugated too)")
M["c03_guess"] = ("C03", PU, [('            return f"ChargeConj({name})"\n\n\ndef particle_from_string_name', '            return f"anti-{name}"\n\n\ndef particle_from_string_name')], "unknown names guessed as anti-<name>")
M["c03_precedence"] = ("C03", D, [("        for d in duplicates:\n            mother_names_ccdecays.remove(d)", "        for d in duplicates[1:]:\n            mother_names_ccdecays.remove(d)")], "Decay does not take precedence over CDecay for the first duplicate")
# ---------------- C04
M["c04_cap"] = ("C04", Y, [("            {charge_conjugate_name(p, pdg_name): n for p, n in self.items()}", "            {charge_conjugate_name(p, pdg_name): min(n, 2) for p, n in self.items()}")], "multiplicities capped at 2 in final-state conjugation")
M["c04_meta"] = ("C04", Y, [("            self.bf, self.daughters.charge_conjugate(pdg_name), **self.metadata\n", "            self.bf, self.daughters.charge_conjugate(pdg_name)\n")], "metadata dropped in mode conjugation")
M["c04_pdg"] = ("C04", PU, [("            return EvtGen2PDGNameMap[ccname]", "            return ccname")], "PDG route returns EvtGen names")
# ---------------- C05
M["c05_define_first"] = ("C05", D, [("        return {\n            tree.children[0].value: float(tree.children[1].value)\n            for tree in parsed_file.find_data(\"define\")\n        }", "        return {\n            tree.children[0].value: float(tree.children[1].value)\n            for tree in reversed(list(parsed_file.find_data(\"define\")))\n        }")], "first Define of a name wins")
M["c05_alias_first"] = ("C05", D, [("            for tree in self._parsed_dec_file.find_data(\"model_alias\")\n        }", "            for tree in reversed(list(self._parsed_dec_file.find_data(\"model_alias\")))\n        }")], "first ModelAlias of a name wins")
M["c05_sign"] = ("C05", D, [("                    else -self.define_defs[value]", "                    else self.define_defs[value]")], "sign of -NAME dropped")
M["c05_share"] = ("C05", D, [("        return copy.deepcopy(self.define_defs[t.value])", "        return self.define_defs[t.value]")], "alias definition shared by all uses (the unrepaired behaviour)")
# ---------------- C06
M["c06_escape"] = ("C06", D, [("'|'.join(re.escape(dm) for dm in sorted(decay_models, key=len, reverse=True))", "'|'.join(dm for dm in sorted(decay_models, key=len, reverse=True))")], "regex escaping dropped")
M["c06_truncate"] = ("C06", D, [("                chain.from_iterable([known_decay_models, self._additional_decay_models])", "                chain.from_iterable([known_decay_models[:100], self._additional_decay_models])")], "published list truncated when user names are registered")
M["c06_undefined"] = ("C06", D, [("        if t.value not in self.define_defs:\n            raise ValueError(", "        if t.value not in self.define_defs:\n            return [Token(\"MODEL_NAME\", \"PHSP\")]\n            raise ValueError(")], "undefined model labels accepted as PHSP")
M["c06_sort"] = ("C06", D, [("sorted(decay_models, key=len, reverse=True))", "sorted(decay_models, key=len))")], "shortest-first alternation")
# ---------------- C07
M["c07_cc_swap"] = ("C07", D, [("            tree.children[0].value: tree.children[1].value\n            for tree in parsed_file.find_data(\"chargeconj\")", "            tree.children[1].value: tree.children[0].value\n            for tree in parsed_file.find_data(\"chargeconj\")")], "ChargeConj reported with key and value swapped")
M["c07_jetset_float"] = ("C07", D, [("        try:\n            return int(n)\n        except ValueError:", "        try:\n            return float(int(n))\n        except ValueError:")], "JetSet integers returned as floats")
M["c07_width"] = ("C07", D, [("            return Particle.from_evtgen_name(pname).width / GeV  # type: ignore[operator]", "            return Particle.from_evtgen_name(pname).width  # type: ignore[operator]")], "default width not converted to GeV")
M["c07_photos_first"] = ("C07", D, [("    end_item = tree[-1]  # Use the last one if several are present !", "    end_item = tree[0]  # Use the last one if several are present !")], "first of several PHOTOS flags wins")
M["c07_ls_dup"] = ("C07", D, [("            if tree.children[1].value not in d:\n                d[tree.children[1].value] = {\"lineshape\": tree.children[0].value}\n            else:", "            if True:\n                d[tree.children[1].value] = {\"lineshape\": tree.children[0].value}\n            else:")], "repeated lineshape definition silently accepted")
M["c07_alias_first"] = ("C07", D, [("            tree.children[0].value: tree.children[1].value\n            for tree in parsed_file.find_data(\"alias\")", "            tree.children[0].value: tree.children[1].value\n            for tree in reversed(list(parsed_file.find_data(\"alias\")))")], "first Alias of a name wins")
# ---------------- C08
M["c08_shallow_copy"] = ("C08", D, [("                copied_decay = copy.deepcopy(match)\n                copied_decay.children[0].children[0].value = decay2copy", "                copied_decay = Tree(match.data, [copy.deepcopy(match.children[0]), *match.children[1:]])\n                copied_decay.children[0].children[0].value = decay2copy")], "CopyDecay shares the decay lines of its source")
M["c08_reparse_append"] = ("C08", D, [("        self._parsed_decays = get_decays(self._parsed_dec_file)\n", "        self._parsed_decays = (self._parsed_decays or []) + get_decays(self._parsed_dec_file) if False else get_decays(self._parsed_dec_file)\n        self._n_parse = getattr(self, \"_n_parse\", 0)\n")], "placeholder (slots) - see driver", )
# ---------------- C09
M["c09_stable"] = ("C09", D, [("                    _info = self.build_decay_chains(fs, stable_particles)", "                    _info = self.build_decay_chains(fs)")], "stable set not passed down the recursion")
M["c09_notfound"] = ("C09", D, [("        raise DecayNotFound(f\"Decays of particle '{mother}' not found in .dec file!\")", "        return ()")], "unknown mother gives an empty table instead of the not-found error")
# ---------------- C10
M["c10_trunc"] = ("C10", Y, [("        for expanded_mode in product(*fsp_options):", "        for expanded_mode in product(*(fsp_options if len(fsp_options) < 3 else [o[:1] for o in fsp_options])):")], "product truncated for lines with three or more daughters")
M["c10_alias_top"] = ("C10", Y, [("                _expand_decay_modes(fsp, top=False, aliases=aliases)", "                _expand_decay_modes(fsp, top=False)")], "aliases resolved at the top level only")
M["c10_dedup"] = ("C10", Y, [("    decay_chain[orig_mother] = expanded_modes  # type: ignore[assignment]\n\n    return expanded_modes", "    expanded_modes = list(dict.fromkeys(expanded_modes))\n    decay_chain[orig_mother] = expanded_modes  # type: ignore[assignment]\n\n    return expanded_modes")], "identical descriptors deduplicated")
M["c10_empty"] = ("C10", Y, [("            if isinstance(fsp, dict) and _get_modes(fsp):\n                fsp_options.append(_get_modes(fsp))\n            elif isinstance(fsp, dict):\n                # A particle without any decay mode (empty \"Decay\" block) is stable\n                fsp_options.append([next(iter(fsp.keys()))])", "            if isinstance(fsp, dict):\n                fsp_options.append(_get_modes(fsp))")], "empty-block daughters kill their paths (the unrepaired behaviour)")
# ---------------- C11
M["c11_meta"] = ("C11", Y, [("        return cls(**dm)\n", "        return cls(bf=dm[\"bf\"], fs=dm[\"fs\"], model=dm.get(\"model\", \"\"), model_params=dm.get(\"model_params\", \"\"))\n")], "user metadata dropped in the dictionary constructor")
M["c11_first_only"] = ("C11", Y, [("            for pos, fsp in enumerate(list_fsp):\n                if fsp in self.decays:\n                    list_fsp[pos] = recursively_replace(fsp)  # type: ignore[call-overload]", "            done = set()\n            for pos, fsp in enumerate(list_fsp):\n                if fsp in self.decays and fsp not in done:\n                    done.add(fsp)\n                    list_fsp[pos] = recursively_replace(fsp)  # type: ignore[call-overload]")], "only the first of two identical decaying daughters expanded")
M["c11_unsorted"] = ("C11", Y, [("        return sorted(self.elements())\n\n    def charge_conjugate", "        return list(self.elements())\n\n    def charge_conjugate")], "to_list not canonical")
# ---------------- C12
M["c12_three"] = ("C12", Y, [("            for k in keys:\n                if k in fs:", "            for k in keys[:4]:\n                if k in fs:")], "only the mother and the first three sub-decays are substituted")
M["c12_meta"] = ("C12", Y, [("            {self.mother: DecayMode(vis_bf, fs, **self.top_level_decay().metadata)},", "            {self.mother: DecayMode(vis_bf, fs)},")], "model information of the result dropped")
M["c12_pow"] = ("C12", Y, [("                    vis_bf *= self.decays[k].bf ** n_k", "                    vis_bf *= self.decays[k].bf")], "branching fraction counted once per particle type")
# ---------------- C13
M["c13_swap"] = ("C13", U, [("        if top:\n            return DescriptorFormat.config[\"decay_pattern\"].format(**args)\n        return DescriptorFormat.config[\"sub_decay_pattern\"].format(**args)", "        if not top:\n            return DescriptorFormat.config[\"decay_pattern\"].format(**args)\n        return DescriptorFormat.config[\"sub_decay_pattern\"].format(**args)")], "patterns swapped")
M["c13_unsorted"] = ("C13", Y, [("            final_state = DaughtersDict(expanded_mode).to_string()", "            final_state = \" \".join(expanded_mode)")], "daughters rendered in the order given")
# ---------------- C14
M["c14_ctor"] = ("C14", U, [("        old_config = copy(DescriptorFormat.config)\n        self.set_config(**self.new_config)\n        self.old_configs.append(old_config)", "        self.set_config(**self.new_config)\n        self.old_configs.append(dict(DescriptorFormat.__dict__.get(\"_default\", {\"decay_pattern\": \"{mother} -> {daughters}\", \"sub_decay_pattern\": \"({mother} -> {daughters})\"})))")], "leaving a context restores the default format, not the one at entry")
M["c14_half"] = ("C14", U, [("        new_config = {\n            \"decay_pattern\": decay_pattern,\n            \"sub_decay_pattern\": sub_decay_pattern,\n        }\n        expected_wildcards", "        new_config = {\n            \"decay_pattern\": decay_pattern,\n            \"sub_decay_pattern\": sub_decay_pattern,\n        }\n        DescriptorFormat.config = dict(DescriptorFormat.config, decay_pattern=decay_pattern)\n        expected_wildcards")], "invalid pattern half-applied before validation")
# ---------------- C15
M["c15_sibling"] = ("C15", V, [("                    _bf = subchain[idm][\"bf\"]", "                    _bf = subchain[idm if n_decaymodes < 4 else (idm + 1) % n_decaymodes][\"bf\"]")], "edge label taken from a sibling line for tables with four or more lines")
M["c15_sorted"] = ("C15", V, [("            label = html_table_label(list_parts, bgcolor=\"#eef3f8\")", "            label = html_table_label(sorted(list_parts), bgcolor=\"#eef3f8\")")], "daughters sorted in leaf nodes")
M["c15_port"] = ("C15", V, [("                            iterate_chain(_p[_k], top_node=_ref_1, link_pos=i)", "                            iterate_chain(_p[_k], top_node=_ref_1, link_pos=max(i - 1, 0))")], "edge starts from the wrong slot")
# ---------------- C16
M["c16_asc"] = ("C16", D, [("        ls = sorted(ls, key=lambda x: x[0] if ascending else -x[0])", "        ls = sorted(ls, key=lambda x: -x[0])")], "ascending ignored (the unrepaired behaviour)")
M["c16_norm"] = ("C16", D, [("            norm = sum(bf for bf, _, _, _ in ls)", "            norm = sum(bf for bf, _, _, _ in ls[:5])")], "normalisation over the first five rows only")
M["c16_prec"] = ("C16", D, [('                line = "  {:<10.7g}   {:<{max_length}}     {}  {}".format(', '                line = "  {:<10.5g}   {:<{max_length}}     {}  {}".format(')], "five significant digits when the model is printed")
# ---------------- C17
M["c17_first_alt"] = ("C17", AC, [("        new_trees = [\n            ln\n            for line in linelist\n            if line.name == self.name\n            for ln in line.expand_lines(linelist)\n        ]", "        new_trees = [\n            ln\n            for line in linelist\n            if line.name == self.name\n            for ln in line.expand_lines(linelist)\n        ][:2]")], "at most two alternatives per resonance")
M["c17_polar"] = ("C17", AC, [("            mat[\"amp\"] = A * np.exp(theta * 1j)", "            mat[\"amp\"] = A * np.exp(np.deg2rad(theta) * 1j)")], "phase taken in degrees")
M["c17_rows"] = ("C17", AC, [("        parameters = pd.DataFrame(\n            variables, columns=\"name fix value error\".split()\n        ).set_index(\"name\")", "        parameters = pd.DataFrame(\n            variables, columns=\"name fix value error\".split()\n        ).drop_duplicates(\"value\").set_index(\"name\")")], "parameter rows with equal values dropped")
M["c17_tag"] = ("C17", AT, [("                    elif children.data == \"lineshape\":\n                        (dic[\"lineshape\"],) = children.children", "                    elif children.data == \"lineshape\" and \"spinfactor\" not in dic:\n                        (dic[\"lineshape\"],) = children.children")], "lineshape tag lost when a spin tag is present")
# ---------------- C18
M["c18_inj"] = ("C18", MD, [("        return [a for a in product(*possibilities) if len(set(a)) == len(a)]", "        return [a for a in product(*possibilities) if len(set(a)) >= len(a) - 1]")], "non-injective assignments kept")
M["c18_mass"] = ("C18", GF, [("                mass2 = f\"M_{structure[2]+1}{structure[3]+1}\"\n            else:\n                mass1 = f\"M_{structure[0]+1}{structure[1]+1}_{structure[2]+1}\"\n                mass2 = f\"M_{structure[0]+1}{structure[1]+1}\"\n            masses = [mass1, mass2]\n            for i_mass, sub in enumerate(self.vertexes):\n                factor.append(\n                    \"        \" + sub.make_lineshape(structure, masses[i_mass])\n                )\n        exit_ = \"\\n    });\\n\"", "                mass2 = f\"M_{structure[2]+1}{structure[3]+1}\"\n            else:\n                mass1 = f\"M_{structure[0]+1}{structure[1]+1}_{structure[2]+1}\"\n                mass2 = f\"M_{structure[0]+1}{structure[1]+1}\"\n            masses = [mass1, mass1]\n            for i_mass, sub in enumerate(self.vertexes):\n                factor.append(\n                    \"        \" + sub.make_lineshape(structure, masses[i_mass])\n                )\n        exit_ = \"\\n    });\\n\"")], "C++: second resonance given the first one's invariant mass")
M["c18_count"] = ("C18", GF, [("            f\"        {n}}});\\n\\n\"", "            f\"        {min(n, 2)}}});\\n\\n\"")], "C++: declared permutation count capped at 2")
# ---------------- C19
M["c19_ri"] = ("C19", GF, [("            else f'Variable(\"{self!s}_i\", {self.amp.imag:.6},{self.err.imag:.6}, 0., 1000.)'", "            else f'Variable(\"{self!s}_r\", {self.amp.imag:.6},{self.err.imag:.6}, 0., 1000.)'")], "Python: both coefficients named _r (the unrepaired behaviour)")
M["c19_print"] = ("C19", A2, [("    printer(\"DK3P_DI.amplitudes = amplitudes_list\")", "    print(\"DK3P_DI.amplitudes = amplitudes_list\")")], "last line printed instead of returned (the unrepaired behaviour)")
M["c19_fixed_py"] = ("C19", GF, [("            if not par.fix:\n                headerlist.append(\n                    f'{pname} = Variable(\"{name}\", {par.value}, {par.error} )'", "            if par.fix:\n                headerlist.append(\n                    f'{pname} = Variable(\"{name}\", {par.value}, {par.error} )'")], "Python: fixedness of fit parameters inverted")
# ---------------- C20
M["c20_leak"] = ("C20", AC, [("        cls.all_particles = set()\n        cls.final_particles = set()\n        cls.cartesian = False\n", "        cls.final_particles = set()\n        cls.cartesian = False\n")], "resonances of earlier files leak (the unrepaired behaviour)")
M["c20_sticky"] = ("C20", AC, [("        cls.all_particles = set()\n        cls.final_particles = set()\n        cls.cartesian = False\n", "        cls.all_particles = set()\n        cls.final_particles = set()\n")], "cartesian switch sticky across files")
del M["c08_reparse_append"]

# ---------------- second batch: subtler variants of the ones the suite kills (thresholds, rare inputs)
M["c01_plus_str"] = ("C01", D, [("            t.children[0].value = float(t.children[0].value)", "            if not str(t.children[0].value).startswith(\"+\"):\n                t.children[0].value = float(t.children[0].value)")], "parameters written with a leading '+' stay strings")
M["c01_fs_sorted5"] = ("C01", D, [("    return [str(fsp.children[0].value) for fsp in fsps]", "    names = [str(fsp.children[0].value) for fsp in fsps]\n    return sorted(names) if len(names) >= 5 else names")], "daughters sorted when there are five or more")
M["c01_keep_last3"] = ("C01", D, [("                duplicates_to_remove.extend([item] * (c - 1))", "                duplicates_to_remove.extend([item] * (c - 1 if c < 3 else c - 2))")], "a mother repeated three times keeps two tables")
M["c02_semis2"] = ("C02", G, [("model : (model_label  | MODEL_NAME model_options?) _SEMICOLON+", "model : (model_label  | MODEL_NAME model_options?) _SEMICOLON _SEMICOLON?")], "at most two terminating semicolons")
M["c02_end_exact"] = ("C02", D, [('                            beg.startswith("End") and not beg.startswith("Enddecay")', '                            beg.rstrip() == "End"')], "End line followed by a comment is not recognised in intermediate files")
M["c03_orient_small"] = ("C03", D, [("        for p, ccp in dict_cc_names.items():\n            if ccp == pname:\n                return p", "        for p, ccp in dict_cc_names.items():\n            if ccp == pname and len(dict_cc_names) > 2:\n                return p")], "reverse orientation ignored in files with one or two ChargeConj statements")
M["c03_guess_x"] = ("C03", PU, [('            return f"ChargeConj({name})"\n\n\ndef particle_from_string_name', '            return f"anti-{name}" if name.startswith("X") else f"ChargeConj({name})"\n\n\ndef particle_from_string_name')], "unknown names starting with X guessed as anti-<name>")
M["c03_precedence2"] = ("C03", D, [("        for d in duplicates:\n            mother_names_ccdecays.remove(d)", "        for d in duplicates[: 1 if len(duplicates) > 1 else None]:\n            mother_names_ccdecays.remove(d)")], "with several Decay+CDecay names only the first gets precedence")
M["c05_sign_neg"] = ("C05", D, [("                    else -self.define_defs[value]", "                    else -abs(self.define_defs[value])")], "-NAME wrong for negative definitions")
M["c07_photos_second"] = ("C07", D, [("    end_item = tree[-1]  # Use the last one if several are present !", "    end_item = tree[min(len(tree) - 1, 1)]  # Use the last one if several are present !")], "with three or more PHOTOS flags the second wins")
M["c10_trunc3"] = ("C10", Y, [("        for expanded_mode in product(*fsp_options):", "        for expanded_mode in product(*(fsp_options if sum(len(o) > 1 for o in fsp_options) < 3 else [o[:1] for o in fsp_options])):")], "product truncated for lines with three or more multi-mode daughters")
M["c12_pow2"] = ("C12", Y, [("                    vis_bf *= self.decays[k].bf ** n_k", "                    vis_bf *= self.decays[k].bf ** min(n_k, 2)")], "branching fraction counted at most twice per particle type")
M["c13_dedup_sub"] = ("C13", Y, [("            final_state = DaughtersDict(expanded_mode).to_string()", "            final_state = DaughtersDict([x for i, x in enumerate(expanded_mode) if not (x.startswith(\"(\") and x in expanded_mode[:i])]).to_string()")], "identical sub-decays rendered once")
M["c15_sibling6"] = ("C15", V, [("                    _bf = subchain[idm][\"bf\"]", "                    _bf = subchain[idm if n_decaymodes < 6 else (idm + 1) % n_decaymodes][\"bf\"]")], "edge label taken from a sibling line for tables with six or more lines")
M["c15_port4"] = ("C15", V, [("                            iterate_chain(_p[_k], top_node=_ref_1, link_pos=i)", "                            iterate_chain(_p[_k], top_node=_ref_1, link_pos=i if i < 4 else i - 1)")], "edge starts from the wrong slot for the fifth daughter onwards")
M["c09_stable_deep"] = ("C09", D, [("                    _info = self.build_decay_chains(fs, stable_particles)", "                    _info = self.build_decay_chains(fs, [s for s in stable_particles if s in d[\"fs\"]])")], "stable set thinned out below the first level")
M["c11_zero_mult"] = ("C11", Y, [("            iterable = {k: v for k, v in iterable.items() if v > 0}", "            iterable = {k: v for k, v in iterable.items() if v >= 0}")], "zero multiplicities kept")
M["c04_pdg_self"] = ("C04", PU, [("            ccname = charge_conjugate_name(PDG2EvtGenNameMap[name])", "            ccname = charge_conjugate_name(PDG2EvtGenNameMap[name]) if not name.startswith(\"Sigma\") else PDG2EvtGenNameMap[name]")], "PDG route: Sigma names not conjugated")

M["c08_cache"] = ("C08", D, [("class DecFileNotParsed(RuntimeError):\n    pass\n", "_ALIASES_CACHE: dict = {}\n\n\nclass DecFileNotParsed(RuntimeError):\n    pass\n"),
                             ("        self._check_parsing()\n        return get_aliases(self._parsed_dec_file)", "        self._check_parsing()\n        key = id(self._parsed_dec_file)\n        if key not in _ALIASES_CACHE:\n            _ALIASES_CACHE[key] = get_aliases(self._parsed_dec_file)\n        return _ALIASES_CACHE[key]")], "dict_aliases() returns one cached dictionary by reference")
M["c08_reparse_keep"] = ("C08", D, [("        self._parsed_decays = get_decays(self._parsed_dec_file)\n", "        self._parsed_decays = get_decays(self._parsed_dec_file) if self._parsed_decays is None else self._parsed_decays[: len(get_decays(self._parsed_dec_file))]\n")], "a second parse() re-uses the already transformed decay list")

# Equivalent / benign with respect to the properties (checks must stay silent on these)
BENIGN = {"c11_zero_mult"}
