"""Apply each catalogue mutant to a fresh copy of a tree and run the repository's suite (design note)."""
import sys, os, shutil, subprocess, json, concurrent.futures as cf
sys.path.insert(0, os.path.dirname(__file__))
from mutants import M
SRC = sys.argv[1]            # tree with the planned repairs
WORK = sys.argv[2]           # scratch dir outside /repo and /verif
only = sys.argv[3:] 
def run(mid):
    prop, rel, reps, desc = M[mid]
    d = os.path.join(WORK, mid)
    shutil.rmtree(d, ignore_errors=True)
    shutil.copytree(SRC, d, ignore=shutil.ignore_patterns(".git", "__pycache__", ".benchmarks"))
    p = os.path.join(d, rel); s = open(p).read()
    for old, new in reps:
        if s.count(old) != 1:
            shutil.rmtree(d, ignore_errors=True); return mid, "NOAPPLY(%d)" % s.count(old), ""
        s = s.replace(old, new)
    open(p, "w").write(s)
    env = dict(os.environ, PYTHONPATH=os.path.join(d, "src"), PYTHONDONTWRITEBYTECODE="1")
    try:
        r = subprocess.run(["/venv/bin/python", "-m", "pytest", "-q", "-p", "no:cacheprovider", "--timeout=900", "-x", "--deselect", "tests/dec/test_dec.py::test_particle_property_definitions", "--deselect", "tests/test_convert.py::test_full_convert"], cwd=d, env=env, capture_output=True, text=True, timeout=1200)
        tail = r.stdout.strip().splitlines()[-1] if r.stdout.strip() else r.stderr[-200:]
        failed = [l for l in r.stdout.splitlines() if l.startswith("FAILED") or l.startswith("ERROR")]
        res = "SURVIVES" if r.returncode == 0 else "KILLED"
    except subprocess.TimeoutExpired:
        res, tail, failed = "TIMEOUT", "", []
    shutil.rmtree(d, ignore_errors=True)
    return mid, res, (failed[0][:110] if failed else tail[:110])
ids = only or list(M)
with cf.ThreadPoolExecutor(max_workers=12) as ex:
    for mid, res, info in ex.map(run, ids):
        print(f"{mid:22} {M[mid][0]} {res:10} {info}", flush=True)
