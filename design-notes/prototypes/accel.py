import functools
import decaylanguage.utils.particleutils as PU
from particle import Particle
_real = PU.particle_list_from_string_name
_cache = {}
def cached(name):
    key = (name, len(Particle.all()))
    if key not in _cache: _cache[key] = _real(name)
    return list(_cache[key])
PU.particle_list_from_string_name = cached
