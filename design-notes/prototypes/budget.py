import sys
import decaylanguage.decay.decay as Y
mon=sys.monitoring; TOOL=4; mon.use_tool_id(TOOL,"vmon")
class Diverged(Exception): pass
state={"n":0,"budget":None}
co=Y.DecayChain.flatten.__code__
def on_line(code,line):
    if state["budget"] is not None:
        state["n"]+=1
        if state["n"]>state["budget"]:
            state["budget"]=None
            raise Diverged(f"{code.co_qualname}: more than {state['n']-1} line events")
mon.register_callback(TOOL,mon.events.LINE,on_line)
mon.set_local_events(TOOL,co,mon.events.LINE)
real=Y.DecayChain.flatten
def flatten(self,*a,**k):
    size=sum(len(m.daughters) for m in self.decays.values())+len(self.decays)
    state["n"]=0; state["budget"]=200*(size+10)
    try: return real(self,*a,**k)
    finally:
        state["max"]=max(state.get("max",0),state["n"]); state["budget"]=None
Y.DecayChain.flatten=flatten
sys.argv=["p12.py","150"]
try:
    exec(open("p12.py").read())
except Diverged as e:
    print("DIVERGED ->", e)
print("max line events per call", state.get("max"))
