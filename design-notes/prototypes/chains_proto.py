import sys, os, warnings, time, random
from collections import Counter
import decaylanguage
from decaylanguage import DecFileParser
sys.setrecursionlimit(20000)
base=os.path.dirname(decaylanguage.__file__)

def tables_of(p):
    T={}
    for m in p.list_decay_mother_names():
        T[m]=[]
        for t in p._find_decay_modes(m):
            d=p._decay_mode_details(t, display_photos_keyword=False)
            T[m].append(d)
    return T
def unfold(T,m,S):
    out=[]
    for d in T[m]:
        fs=[]
        for x in d["fs"]:
            if x in S or x not in T: fs.append(x)
            else: fs.append(unfold(T,x,S))
        out.append(dict(bf=d["bf"],fs=fs,model=d["model"],model_params=d["model_params"]))
    return {m:out}
def size(T,m,memo):
    if m in memo: return memo[m]
    s=0;paths=0
    for d in T[m]:
        s+=1;prod=1
        for x in d["fs"]:
            if x in T:
                a,b=size(T,x,memo); s+=a; prod*=b if T[x] else 1
        paths+=prod
    memo[m]=(s,paths); return memo[m]
# canonical tree: (name, Counter-as-sorted-tuple of children) ; child = str or tree
def canon(name, kids): return (name, tuple(sorted(kids, key=repr)))
def paths(T,m,al):
    """list of canonical trees, one per way of choosing lines"""
    res=[]
    name=al.get(m,m)
    for d in T[m]:
        opts=[]
        for x in d["fs"]:
            if x in T and T[x]: opts.append(paths(T,x,al))
            else: opts.append([x])
        import itertools
        for combo in itertools.product(*opts):
            res.append(canon(name, combo))
    return res
def read_desc(s):
    """bracket reader for default format: 'M -> a (B -> c d) e'"""
    toks=s.split(" ")
    pos=0
    def parse_decay(i, closing):
        # toks[i] = mother (maybe with leading '(' already stripped), toks[i+1] == '->'
        mother=toks[i]; assert toks[i+1]=="->", (s,i)
        i+=2; kids=[]
        while i<len(toks):
            t=toks[i]
            if t.startswith("(") and i+1<len(toks) and toks[i+1]=="->":
                toks[i]=t[1:]
                sub,i=parse_decay(i, True)
                kids.append(sub)
                if closing and toks[i-1] is None: pass
                # after a sub-decay, check if its last token carried extra ')' closing us
                if extra[0]>0:
                    extra[0]-=1
                    return canon(mother,kids), i
                continue
            # plain name; may end with ')' closing current subdecay(s): name has balanced parens
            if closing:
                bal=t.count("(")-t.count(")")
                if bal<0:
                    nclose=-bal
                    name=t[:len(t)-nclose]
                    kids.append(name)
                    extra[0]=nclose-1
                    return canon(mother,kids), i+1
            kids.append(t); i+=1
        return canon(mother,kids), i
    extra=[0]
    tree,i=parse_decay(0, False)
    assert i==len(toks), (s, i, len(toks))
    return tree
if __name__=="__main__":
    p=DecFileParser(os.path.join(base,"data",sys.argv[1]))
    with warnings.catch_warnings():
        warnings.simplefilter("ignore"); p.parse()
    T=tables_of(p); al=p.dict_aliases(); memo={}
    for m in T: size(T,m,memo)
    rng=random.Random(0)
    ms=[m for m in T if memo[m][0]<=400]
    t=time.time(); n=0
    for m in ms:
        for S in [(), tuple(rng.sample(sorted({x for d in T[m] for x in d["fs"]}) or ["zz"], 1)), tuple(rng.sample(sorted(T), 5))]:
            got=p.build_decay_chains(m, stable_particles=list(S))
            exp=unfold(T,m,set(S))
            n+=1
            if got!=exp: print("C09 MISMATCH",m,S); break
    print("C09 checks",n,"time %.1f"%(time.time()-t))
    ms=[m for m in T if memo[m][1]<=3000]
    t=time.time(); n=0; tot=0
    for m in ms:
        got=p.expand_decay_modes(m)
        exp=paths(T,m,al)
        tot+=len(got); n+=1
        if len(got)!=memo[m][1] : print("C10 COUNT",m,len(got),memo[m][1]); 
        try:
            g=Counter(read_desc(x) for x in got)
        except AssertionError as e:
            print("READ FAIL",m,e); continue
        if g!=Counter(exp): print("C10 MISMATCH",m, len(got), len(exp)); 
    print("C10 checks",n,"descriptors",tot,"time %.1f"%(time.time()-t))
