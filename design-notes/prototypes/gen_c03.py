"""Mini prototype: random Decay/Alias/ChargeConj/CopyDecay/CDecay files vs expected semantics."""
import random, sys, warnings, json
from particle import Particle
from particle.converters import EvtGenName2PDGIDBiMap as bm
from decaylanguage import DecFileParser
T = dict(bm._to_map)            # name -> id
INV = {int(v):k for k,v in T.items()}
def selfconj(i):
    try: return Particle.from_pdgid(i).is_self_conjugate
    except Exception: return False
def conj_table(n):
    if n in T:
        i=int(T[n])
        if -i in INV: return INV[-i]
        try:
            p = Particle.from_pdgid(i)
        except Exception:
            return f"ChargeConj({n})"
        if p.is_self_conjugate: return n
    return f"ChargeConj({n})"
NAMES=[n for n in T]
RES={"Decay","Enddecay","End","CDecay","CopyDecay","Define","Alias","ChargeConj","Particle","ModelAlias","JetSetPar","BlattWeisskopf","SetLineshapePW","yesPhotos","noPhotos","PHOTOS","yes","no"}
def gen(rng):
    # particles with antiparticles for mothers
    pairs=[(n,conj_table(n)) for n in NAMES if conj_table(n)!=n and not conj_table(n).startswith("ChargeConj(")]
    stmts=[]; cc={}
    ntab=rng.randint(2,6)
    mothers=[]; tables={}
    used=set()
    def daughters():
        k=rng.randint(0,5); out=[]
        for _ in range(k):
            r=rng.random()
            if r<0.6: out.append(rng.choice(NAMES))
            elif r<0.75 and aliases: out.append(rng.choice(list(aliases)))
            elif r<0.9: out.append(rng.choice(["Foo","X_1(3872)x","my~part","a/b","q'","zz*"]))
            else: out.append(rng.choice(["pi0","gamma","K_S0","phi","J/psi"]))
        if out and rng.random()<0.3: out.append(out[0])
        return out
    aliases={}
    # aliases with conj pairs
    for _ in range(rng.randint(0,4)):
        n,c=rng.choice(pairs)
        a,b="My"+n,"My"+c
        if a in aliases or b in aliases: continue
        aliases[a]=n; aliases[b]=c
        stmts.append(("Alias",a,n)); stmts.append(("Alias",b,c))
        if rng.random()<0.85:
            if rng.random()<0.5: stmts.append(("ChargeConj",a,b)); cc[a]=b
            else: stmts.append(("ChargeConj",b,a)); cc[b]=a
    def conj(n):
        if n in cc: return cc[n]
        for k,v in cc.items():
            if v==n: return k
        return conj_table(n)
    cdecays=[]
    for _ in range(ntab):
        if aliases and rng.random()<0.5:
            m=rng.choice(list(aliases))
        else:
            m=rng.choice(pairs)[0]
        if m in used: continue
        used.add(m)
        lines=[]
        for _ in range(rng.randint(0,4)):
            lines.append((rng.choice(["1.0","0.5",".25","2E-3"]),daughters(),rng.random()<0.3,rng.choice(["PHSP","SVS","VSS_BMIX dm","HELAMP 1.0 0.0 -1.0 0.5"])))
        tables[m]=lines; mothers.append(m)
        stmts.append(("Decay",m,lines))
        r=rng.random()
        c=conj(m)
        if r<0.6 and not c.startswith("ChargeConj(") and c not in used and c!=m:
            used.add(c); cdecays.append(c); stmts.append(("CDecay",c))
    # cdecay without source
    if rng.random()<0.3:
        for n,c in rng.sample(pairs,3):
            if n not in used and c not in used: used.add(n); stmts.append(("CDecay",n)); cdecays.append(n); break
    # Decay + CDecay same name
    if mothers and rng.random()<0.3:
        m=rng.choice(mothers)
        if m not in cdecays: stmts.append(("CDecay",m)); cdecays.append(m)
    # shuffle statements but keep nothing ordered (order-free language)
    rng.shuffle(stmts)
    text=[]
    for s in stmts:
        if s[0]=="Decay":
            text.append(f"Decay {s[1]}")
            for bf,ds,ph,mod in s[2]:
                text.append(f"{bf} {' '.join(ds)} {'PHOTOS ' if ph else ''}{mod};")
            text.append("Enddecay")
        else: text.append(" ".join(s))
    text.append("Define dm 0.5")
    # expected
    exp={}
    for m in mothers: exp[m]=[(bf,list(ds),ph,mod) for bf,ds,ph,mod in tables[m]]
    for x in cdecays:
        if x in tables: continue
        src=conj(x)
        if src in tables:
            exp[x]=[(bf,[conj(d) for d in ds],ph,mod) for bf,ds,ph,mod in tables[src]]
    return "\n".join(text)+"\n", exp, mothers, cdecays
def run(seed,n):
    rng=random.Random(seed); bad=0
    for i in range(n):
        text,exp,mothers,cdecays=gen(rng)
        for cc_on in (True,False):
            p=DecFileParser.from_string(text)
            with warnings.catch_warnings():
                warnings.simplefilter("ignore")
                try: p.parse(include_ccdecays=cc_on)
                except Exception as e:
                    bad+=1; print("EXC",type(e).__name__,str(e)[:200]); print(text); return
            got={}
            names=p.list_decay_mother_names()
            for m in names:
                got[m]=[]
                for t in p._find_decay_modes(m):
                    d=p._decay_mode_details(t)
                    got[m].append((d["fs"],d["model"]))
            e={m:[(ds,("PHOTOS " if ph else "")+mod.split()[0]) for bf,ds,ph,mod in ls] for m,ls in exp.items() if cc_on or m in mothers}
            if got!=e or len(names)!=len(set(names)):
                bad+=1; print("MISMATCH seed",seed,"case",i,"cc",cc_on); print(text); print("got",got); print("exp",e); return
    print("seed",seed,"ok",n)
for s in range(int(sys.argv[1]),int(sys.argv[2])): run(s,150)
