import random, sys, cmath, math, itertools
from particle import Particle
from decaylanguage.modeling.amplitudechain import AmplitudeChain
POOL = {"D0":421,"K-":-321,"pi+":211,"pi-":-211,"K+":321,"K*(892)bar0":-313,"K*(892)0":313,"rho(770)0":113,"rho(1450)0":100113,
 "omega(782)0":223,"K(1)(1270)bar-":-10323,"K(1)(1270)+":10323,"K(1)(1400)bar-":-20323,"K(1460)bar-":-100321,"K(2)*(1430)bar-":-325,
 "a(1)(1260)+":20213,"a(1)(1260)-":-20213,"KPi00":998111,"KPi10":988111,"KPi20":978111,"PiPi00":998101,"PiPi10":988101,"PiPi20":978101,"PiPi30":968101,
 "phi(1020)0":333,"f(0)(980)0":9010221,"f(2)(1270)0":225,"K(0)*(1430)bar0":-10311}
def pname(n): return str(Particle.from_pdgid(POOL[n]))
FINALS=["K-","pi+","pi-","K+"]
RES2=["K*(892)bar0","rho(770)0","rho(1450)0","omega(782)0","KPi00","PiPi00","PiPi10","phi(1020)0","f(0)(980)0"]
RES3=["K(1)(1270)bar-","K(1)(1400)bar-","K(1460)bar-","a(1)(1260)+","K(2)*(1430)bar-"]
SPIN=[None,"S","P","D"]; LS=[None,"GSpline.EFF","kMatrix.pole.1","FOCUS.Kpi","BW"]
class N:  # node
    def __init__(s,name,spin=None,ls=None,kids=None): s.name=name; s.spin=spin; s.ls=ls; s.kids=kids
    def text(s):
        t=s.name
        if s.kids is not None:
            if s.spin and s.ls: t+=f"[{s.spin};{s.ls}]"
            elif s.spin: t+=f"[{s.spin}]"
            elif s.ls: t+=f"[{s.ls}]"
            t+="{"+",".join(k.text() for k in s.kids)+"}"
        return t
def gen(rng):
    lines=[]  # (N, nums)
    subl={}   # name -> list of N (alternatives), in file order
    def tag(): 
        return rng.choice(SPIN), rng.choice(LS)
    def sub2(name, depth):
        sp,ls=tag(); return N(name,sp,ls,[N(rng.choice(FINALS)),N(rng.choice(FINALS))])
    def sub3(name, depth):
        sp,ls=tag()
        r=rng.choice(RES2)
        kid = sub2(r,depth+1) if rng.random()<0.5 else N(r)   # dangling
        return N(name,sp,ls,[kid,N(rng.choice(FINALS))])
    nl=rng.randint(1,4); tops=[]
    for _ in range(nl):
        sp,ls=rng.choice(SPIN),None
        if rng.random()<0.5:
            a,b=rng.choice(RES2),rng.choice(RES2)
            ka = sub2(a,1) if rng.random()<0.5 else N(a)
            kb = sub2(b,1) if rng.random()<0.5 else N(b)
            tops.append(N("D0",sp,None,[ka,kb]))
        else:
            a=rng.choice(RES3)
            ka = sub3(a,1) if rng.random()<0.5 else N(a)
            tops.append(N("D0",sp,None,[ka,N(rng.choice(FINALS))]))
    # alternatives for dangling names
    def dangling(n,acc):
        if n.kids is None:
            if n.name in RES2 or n.name in RES3: acc.add(n.name)
        else:
            for k in n.kids: dangling(k,acc)
    todo=set()
    for t in tops: dangling(t,todo)
    done=set()
    while todo:
        nm=todo.pop(); done.add(nm)
        k=rng.randint(0,3); alts=[]
        for _ in range(k):
            a = sub2(nm,2) if nm in RES2 else sub3(nm,2)
            alts.append(a)
            acc=set(); dangling(a,acc)
            for x in acc:
                if x not in done and x!=nm: todo.add(x)
        subl[nm]=alts
    # avoid cycles: RES3 alt may contain dangling RES2 only; RES2 alt contains only finals -> acyclic
    allines=[("top",t) for t in tops]+[("sub",a) for nm in subl for a in subl[nm]]
    rng.shuffle(allines)
    out=["EventType D0 K- pi+ pi+ pi-",""]
    nums={}
    for kind,n in allines:
        A=round(rng.uniform(0.1,2),3); ph=round(rng.uniform(-3,3),3)
        nums[id(n)]=(A,ph)
        out.append(f"{n.text()}  {rng.choice([0,2])} {A} 0.01 {rng.choice([0,2])} {ph} 0.02")
        if rng.random()<0.2: out.append("# comment"); 
        if rng.random()<0.2: out.append("")
    # expected
    order_sub={nm:[a for k,a in allines if k=="sub" and a.name==nm] for nm in subl}
    def expand(n):
        if n.kids is not None:
            outs=[]
            for combo in itertools.product(*[expand(k) for k in n.kids]):
                outs.append(render_node(n,combo))
            return outs
        alts=order_sub.get(n.name,[])
        res=[x for a in alts for x in expand(a)]
        return res if res else [pname(n.name)]
    def render_node(n,kidstrs):
        t=pname(n.name)
        if n.spin and n.ls: t+=f"[{n.spin};{n.ls}]"
        elif n.ls: t+=f"[{n.ls}]"
        elif n.spin: t+=f"[{n.spin}]"
        return t+"{"+",".join(kidstrs)+"}"
    def expected():
        exp=[]
        for k,n in allines:
            if k=="top":
                A,ph=nums[id(n)]
                exp.append((sorted(expand(n)), cmath.rect(A,ph)))
        return exp
    return "\n".join(out)+"\n", expected
def run(seed,n):
    rng=random.Random(seed)
    for i in range(n):
        text,exp=gen(rng)
        try:
            lines,pars,consts,states=AmplitudeChain.read_ampgen(text=text)
        except Exception as e:
            print("EXC",type(e).__name__,str(e)[:300]); print(text); return False
        exp=exp()
        got=[(str(l),l.amp) for l in lines]
        pos=0
        for strs,amp in exp:
            chunk=got[pos:pos+len(strs)]; pos+=len(strs)
            if sorted(s for s,_ in chunk)!=strs or any(abs(a-amp)>1e-12 for _,a in chunk):
                print("MISMATCH seed",seed,"case",i); print(text); print("got",chunk); print("exp",strs,amp); return False
        if pos!=len(got): print("COUNT MISMATCH",pos,len(got)); print(text); return False
    print("seed",seed,"ok",n, "last n amps",len(got)); return True
for s in range(int(sys.argv[1]),int(sys.argv[2])):
    if not run(s,100): break
