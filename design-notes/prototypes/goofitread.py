"""Prototype: read generated C++ into an abstract model; run generated Python against a recording stand-in."""
import re, sys, types, itertools

# ---------- tiny expression reader (shared by C++ text) ----------
TOK = re.compile(r'\s*(?:(?P<str>"(?:[^"\\]|\\.)*")|(?P<num>[-+]?(?:\d+\.?\d*|\.\d+)(?:[eE][-+]?\d+)?)|(?P<id>(?:new\s+)?[A-Za-z_][\w]*(?:(?:::|\.)[A-Za-z_][\w]*)*(?:<[^()]*?>)?)|(?P<p>[(){}\[\],;=*]))')
def tokens(s):
    i=0; out=[]
    while i<len(s):
        m=TOK.match(s,i)
        if not m:
            if s[i:].strip()=="": break
            raise ValueError(f"tok? {s[i:i+40]!r}")
        i=m.end()
        k=m.lastgroup; out.append((k,m.group(k)))
    return out
def parse_expr(t,i):
    k,v=t[i]
    if k=="str": return ("s",v[1:-1]),i+1
    if k=="num": return ("n",float(v)),i+1
    if k=="id":
        name=re.sub(r"^new\s+","",v).replace("::",".")
        name=re.sub(r"<.*>$","",name)
        if i+1<len(t) and t[i+1][1] in "({":
            close={"(":")","{":"}"}[t[i+1][1]]
            args,i=parse_list(t,i+2,close)
            return ("c",name,args),i
        return ("i",name),i+1
    if k=="p" and v in "({[":
        close={"(":")","{":"}","[":"]"}[v]
        args,i=parse_list(t,i+1,close)
        return ("t",args),i
    raise ValueError(f"expr? {t[i:i+5]}")
def parse_list(t,i,close):
    args=[]
    while t[i][1]!=close:
        e,i=parse_expr(t,i); args.append(e)
        if t[i][1]==",": i+=1
    return args,i+1

def read_cpp(text):
    body=text[text.index("// Intro"):]
    m={"consts":{}, "resvars":{}, "pars":{}, "arrays":{}, "amps":[], "event":None, "masses":None}
    m["event"]=re.search(r"// Event type: (.*)",body).group(1).strip()
    for name,val in re.findall(r"constexpr fptype (\w+)\s*\{\s*([^}]*?)\s*\};",body): m["consts"][name]=float(val)
    intro,rest=body.split("// Parameters",1)
    pars,lines=rest.split("// Lines",1)
    for name,q,val in re.findall(r'Variable (\w+)\s*\{\s*"([^"]*)"\s*,\s*([^}]*?)\s*\};',intro): m["resvars"][name]=(q,float(val))
    for name,q,vals in re.findall(r'^\s*Variable (\w+) \{"([^"]*)", ([^}]*?) \};',pars,re.M):
        v=[float(x) for x in vals.split(",")]
        m["pars"][name]=(q,v[0],v[1] if len(v)>1 else None)
    for name,items in re.findall(r"std::vector<Variable>\s+(\w+) \{\{\n(.*?)\n\s*\}\};",pars,re.S):
        m["arrays"][name]=[x.strip().rstrip(",") for x in items.splitlines()]
    m["masses"]=re.search(r"DK3P_DI.particle_masses = \{(.*?)\};",body).group(1).replace(" ","").split(",")
    for blk in re.split(r"// Line \d+\n",lines)[1:]:
        sf=re.search(r"spin_factor_list.push_back\(std::vector<SpinFactor\*>\(\{\n(.*?)\n\s*\}\)\);",blk,re.S).group(1)
        lf=re.search(r"line_factor_list.push_back\(std::vector<Lineshape\*>\{\n(.*?)\n\s*\}\);",blk,re.S).group(1)
        am=re.search(r"amplitudes_list.push_back\((new Amplitude\{.*?\})\);",blk,re.S).group(1)
        sfs,_=parse_list(tokens(sf+" )"),0,")")
        lfs,_=parse_list(tokens(lf+" )"),0,")")
        a,_=parse_expr(tokens(am),0)
        m["amps"].append({"sf":sfs,"ls":lfs,"amp":a})
    return m

# ---------- recording stand-in ----------
EXEMPT={}
def run_py(text):
    calls=[]
    class Rec:
        def __init__(s,kind): s.kind=kind
        def __call__(s,*a,**k): 
            r=("c",s.kind,list(a)); calls.append(r); return r
        def __getattr__(s,n):
            if n.startswith("__"): raise AttributeError(n)
            return Rec(s.kind+"."+n)
        def __repr__(s): return f"<{s.kind}>"
    g=types.ModuleType("goofit")
    names=["Variable","Lineshapes","FF","SpinFactor","SF_4Body","Amplitude"]
    for n in names: setattr(g,n,Rec(n))
    class DI: pass
    g.DecayInfo4=lambda: DI()
    ms=[f"M_{a}{b}" for a,b in itertools.permutations("1234",2)]+[f"M_{a}{b}_{c}" for a,b,c in itertools.permutations("1234",3)]
    for x in ms: setattr(g,x,("i",x))
    g.__all__=names+ms+["DecayInfo4"]
    old=sys.modules.get("goofit"); sys.modules["goofit"]=g
    try:
        ns=dict(EXEMPT); exec(compile(text,"<generated>","exec"),ns)
    finally:
        if old is None: del sys.modules["goofit"]
        else: sys.modules["goofit"]=old
    return ns,calls

def norm_cpp(e, env):
    """normalise a C++ expression tree to comparable form; env maps identifiers of declared Variables to ('var', quoted-name)"""
    k=e[0]
    if k=="s": return e[1]
    if k=="n": return e[1]
    if k=="i":
        n=e[1]
        if n in ("true","false"): return n=="true"
        if n in env: return env[n]
        return n.replace("Lineshapes.FOCUS.Mod.","Lineshapes.FocusMod.")
    if k=="c":
        if e[1]=="Lineshapes.spline_t": return tuple(norm_cpp(a,env) for a in e[2])
        return (e[1],[norm_cpp(a,env) for a in e[2]])
    if k=="t": return [norm_cpp(a,env) for a in e[1]]
def norm_py(v):
    if isinstance(v,tuple) and len(v)==3 and v[0]=="c":
        if v[1]=="Variable": return ("var",v[2][0])
        return (v[1],[norm_py(a) for a in v[2]])
    if isinstance(v,tuple) and len(v)==2 and v[0]=="i": return v[1]
    if isinstance(v,(list,)): return [norm_py(a) for a in v]
    if isinstance(v,tuple): return tuple(norm_py(a) for a in v)
    if hasattr(v,"kind"): return v.kind
    return v

if __name__=="__main__":
    cpp=read_cpp(open(sys.argv[1]).read())
    ns,calls=run_py(open(sys.argv[2]).read())
    print("cpp: consts",len(cpp["consts"]),"resvars",len(cpp["resvars"]),"pars",len(cpp["pars"]),"arrays",{k:len(v) for k,v in cpp["arrays"].items()},"amps",len(cpp["amps"]))
    env={n:("var",q) for n,(q,_) in cpp["resvars"].items()}
    env.update({n:("var",q) for n,(q,_,_) in cpp["pars"].items()})
    env.update({n:[env[x] for x in items] for n,items in cpp["arrays"].items()})
    pyamps=[c for c in calls if c[1]=="Amplitude"]
    print("py amps",len(pyamps), "vars",sum(1 for c in calls if c[1]=="Variable"))
    ok=True
    for ca,pa in zip(cpp["amps"],pyamps):
        name,re_,im_,lsl,sfl,n=pa[2]
        py_sf=[norm_py(x) for x in sfl]; py_ls=[norm_py(x) for x in lsl]
        c_sf=[norm_cpp(x,env) for x in ca["sf"]]; c_ls=[norm_cpp(x,env) for x in ca["ls"]]
        camp=norm_cpp(ca["amp"],env)
        if c_sf!=py_sf: ok=False; print("SF DIFF",name); print(" c",c_sf[:2]); print(" p",py_sf[:2])
        if c_ls!=py_ls: ok=False; print("LS DIFF",name); print(" c",c_ls[:1]); print(" p",py_ls[:1])
        cname,cre,cim,_,_,cn=camp[1]
        if (cname,cn)!=(name,float(n)): ok=False; print("AMP DIFF",cname,cn,name,n)
        # coefficients: C++ mkvar(name, fix, value, err) ; py Variable(name, value[, err, 0, 1000])
        for cc,pp in ((cre,re_),(cim,im_)):
            pn,pvals=pp[2][0],pp[2][1:]
            cfix=cc[1][1]; pfix=len(pvals)==1
            if cc[1][0]!=pn or abs(cc[1][2]-pvals[0])>1e-12 or cfix!=pfix: ok=False; print("COEF DIFF",cc,pp)
    print("agree" if ok else "DISAGREE")
