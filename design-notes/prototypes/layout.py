"""Prototype gap-based layout rewriting."""
import random, refdec
NLs=("\n","\r\n")
def segments(text, models, user_models=()):
    """-> list of items: ('T', tok, role) and ('G', pieces, gtype). roles: kw, word, num, model, semi, comma...
    gtype: BOF, EOF, INLINE, PRESEMI, PUNCT, PARAM, LINE_END"""
    lx=refdec.lex(text)
    modelset=set(models)|set(user_models)
    sig=[s for k,s in lx if k=="TOK"]
    mal={sig[i+1] for i,t in enumerate(sig) if t=="ModelAlias" and i+1<len(sig)}
    items=[]; gap=[]
    state="TOP"; in_block=False; in_params=False; line_first=True; after_bf=False
    for k,s in lx:
        if k!="TOK":
            gap.append((k,s)); continue
        # classify gap before this token
        has_nl=any(kk=="NL" for kk,_ in gap)
        if not items: gt="BOF"
        elif in_params and s not in (";",) and (has_nl or True): gt="PARAM"
        elif s==";" and in_params: gt="PARAM_PRESEMI"
        elif s==";": gt="PRESEMI"
        elif has_nl: gt="LINE_END"
        elif s in ("=",":",",") or (items and items[-1][1] in ("=",":",",")): gt="PUNCT"
        else: gt="INLINE"
        items.append(("G",gap,gt)); gap=[]
        role="word"
        # state machine
        if in_params:
            if s==";": in_params=False; state="SEMIS"; role="semi"
            elif s==",": role="comma"
        elif state=="SEMIS" and s==";": role="semi"
        else:
            if state=="SEMIS": state="LINESTART"
            if has_nl or items[-1][2]=="BOF": line_first=True
            if line_first:
                line_first=False
                if s=="Decay": in_block=True; state="HEAD"
                elif s=="Enddecay": in_block=False; state="TOPLINE"
                elif s=="ModelAlias": state="MA_NAME"
                elif in_block: state="DLINE"  # bf
                else: state="TOPLINE"
            elif state=="MA_NAME": state="MA_MODEL"
            elif state=="MA_MODEL":
                if s in modelset or s in mal: in_params=True; role="model"
            elif state=="DLINE":
                if s=="PHOTOS": role="photos"
                elif s in modelset or s in mal: in_params=True; role="model"
        items.append(("T",s,role))
    items.append(("G",gap,"EOF"))
    return items
def render(items):
    out=[]
    for it in items:
        if it[0]=="T": out.append(it[1])
        else: out.append("".join(s for _,s in it[1]))
    return "".join(out)

def rewrite(items, rng, ops, p=0.3, crlf=None):
    """return new items with gaps rewritten."""
    out=[]
    def ws(): return rng.choice([" ","  ","\t"," \t ","    "])
    def com(): return "#"+rng.choice([""," c"," Enddecay"," ; End","# x ;;"," Decay A"," PHSP"])
    nl = lambda: ("\r\n" if (crlf if crlf is not None else False) else "\n")
    n=len(items)
    for idx,it in enumerate(items):
        if it[0]=="T":
            s=it[1]
            if it[2]=="semi" and "semis" in ops and rng.random()<p:
                s=rng.choice([";;","; ;",";\t;;"])
            out.append(("T",s,it[2])); continue
        pieces,gt=it[1],it[2]
        if rng.random()>p and not (crlf is not None):
            out.append(it); continue
        txt="".join(s for _,s in pieces)
        new=None
        if gt in ("INLINE",):
            if "space" in ops: new=ws()
        elif gt in ("PUNCT","PRESEMI"):
            if "space" in ops: new=rng.choice(["",ws()])
        elif gt=="LINE_END":
            parts=[]
            keepcom=[s for k,s in pieces if k=="COM"]
            # rebuild: optional ws, optional comment, newline, then optional blank/comment lines, then indent
            if "comment" in ops and rng.random()<0.5: keepcom=[] if rng.random()<0.5 else [com()]
            first=True; s=""
            s+=rng.choice(["",ws()]) if "space" in ops else ""
            if keepcom:
                s+=keepcom[0]
            s+=nl()
            for c in keepcom[1:]:
                s+=(ws() if rng.random()<0.5 else "")+c+nl()
            if "blank" in ops:
                for _ in range(rng.choice([0,0,1,2])):
                    s+=rng.choice(["",ws()])+(com() if ("comment" in ops and rng.random()<0.3) else "")+nl()
            if "indent" in ops: s+=rng.choice(["",ws()])
            else:
                # keep original indentation = trailing WS of gap
                if pieces and pieces[-1][0]=="WS": s+=pieces[-1][1]
            new=s
        elif gt=="PARAM":
            # between model/params items: blanks, commas, newlines, comments
            nxt=items[idx+1]; prv=items[idx-1] if idx>0 else None
            if nxt[0]=="T" and nxt[2]=="comma" or (prv and prv[0]=="T" and prv[2]=="comma"):
                new=None
            else:
                choice=rng.random()
                if "wrap" in ops and choice<0.4:
                    new=rng.choice(["",ws()])+(com() if ("comment" in ops and rng.random()<0.3) else "")+nl()+ws()
                elif "comma" in ops and choice<0.7 and prv and prv[2]!="model":
                    new=rng.choice([","," , ",", "])
                elif "space" in ops: new=ws()
        elif gt=="PARAM_PRESEMI":
            prv=items[idx-1]
            if prv[2]!="model":
                if "wrap" in ops and rng.random()<0.3: new=nl()+ws()
                elif "space" in ops: new=rng.choice(["",ws()])
            else:
                if "space" in ops: new=rng.choice(["",ws()])
        elif gt=="BOF":
            new=txt  # keep
            if "indent" in ops and rng.random()<0.5: new=ws()+txt if not txt else txt
            if "blank" in ops and rng.random()<0.5: new=nl()+(com()+nl() if "comment" in ops else "")+new
        elif gt=="EOF":
            new=txt
        if new is None: out.append(it)
        else:
            if crlf is not None:
                new=new.replace("\r\n","\n")
                if crlf: new=new.replace("\n","\r\n")
            out.append(("G",[("X",new)],gt))
    return out
