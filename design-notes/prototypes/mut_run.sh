#!/bin/bash
# usage: mut_run.sh <mutant-id> <command...>   (runs command with PYTHONPATH pointing at mutated copy)
mid=$1; shift
d=/tmp/mutwork/run_$mid
rm -rf $d; mkdir -p $d; rsync -a --exclude .git --exclude __pycache__ /tmp/scratch/repo/ $d/
/venv/bin/python - "$mid" "$d" <<'PY'
import sys, os
sys.path.insert(0, "/verif/design-notes")
from mutants import M
mid, d = sys.argv[1], sys.argv[2]
prop, rel, reps, desc = M[mid]
p = os.path.join(d, rel); s = open(p).read()
for old, new in reps:
    assert s.count(old) == 1, mid
    s = s.replace(old, new)
open(p, "w").write(s)
PY
PYTHONPATH=$d/src PYTHONDONTWRITEBYTECODE=1 "$@"
rc=$?
rm -rf $d
exit $rc
