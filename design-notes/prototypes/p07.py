import random, sys, warnings, re
from decimal import Decimal
from particle import Particle
from decaylanguage import DecFileParser
rng=random.Random(int(sys.argv[1]) if len(sys.argv)>1 else 0)
ALPH="abcXYZ019/-+*_().'~"
def label():
    while True:
        s=rng.choice("abcdefgXYZKDB")+"".join(rng.choice(ALPH) for _ in range(rng.randint(0,6)))
        if s not in ("yes","no","End"): return s
NUMS=["1","1.","0.5",".5","-0.8","+3","20.e12","2E-4","1e5","-7","0"]
def numlit(): return rng.choice(NUMS)
def f(x): return float(Decimal(x))
REALW=[("rho0",None),("K*0",None),("D*+",None),("phi",None),("B0",None)]
def gen():
    st=[]; exp=dict(alias={},cc={},define={},copy={},cdecay=[],particle={},pythia={},jetset={},ls={},lspw=[],photos=0,ls_raises=False)
    n=lambda: rng.choice([0,1,2,3,5])
    aliases={}
    for _ in range(n()):
        a=label(); t=rng.choice([x for x,_ in REALW]+[label()]); st.append(("Alias",f"Alias {a} {t}",(a,t)))
    for _ in range(n()):
        a,b=label(),label(); st.append(("ChargeConj",f"ChargeConj {a} {b}",(a,b)))
    for _ in range(n()):
        a=rng.choice(["dm","x","y_1",label()]); v=numlit(); st.append(("Define",f"Define {a} {v}",(a,v)))
    for _ in range(n()):
        a,b=label(),label(); st.append(("CopyDecay",f"CopyDecay {a} {b}",(a,b)))
    for _ in range(n()):
        a=label(); st.append(("CDecay",f"CDecay {a}",(a,)))
    for _ in range(n()):
        k=rng.choice(["PythiaAliasParam","PythiaBothParam","PythiaGenericParam"]); m,pn=rng.choice(["A","ParticleDecays"]),rng.choice(["b","mixB","c_1"])
        v=rng.choice([numlit(),"on","off",label()]); sp=rng.choice([" = ","="," =","= "])
        st.append(("Pythia",f"{k} {m}:{pn}{sp}{v}",(k,m,pn,v)))
    for _ in range(n()):
        m,i=rng.choice(["MSTJ","PARJ","MDCY"]),rng.randint(1,99); v=numlit(); st.append(("JetSet",f"JetSetPar {m}({i})={v}",(m,i,v)))
    for _ in range(n()):
        st.append(("LSPW",(lambda a,b,c,v: f"SetLineshapePW {a} {b} {c} {v}")(*(q:=(label(),label(),label(),rng.randint(0,3)))),q))
    for _ in range(rng.choice([0,0,1,2,3])):
        y=rng.random()<0.5; st.append(("Photos","yesPhotos" if y else "noPhotos",(y,)))
    # lineshape family
    for _ in range(n()):
        kind=rng.choice(["ls","bw","cm","inc"]); pn=rng.choice(["rho0","MyX","a_1+"])
        if kind=="ls": k=rng.choice(["LSFLAT","LSNONRELBW","LSMANYDELTAFUNC"]); st.append(("ls",f"{k} {pn}",(pn,"lineshape",k)))
        elif kind=="bw": v=numlit(); st.append(("ls",f"BlattWeisskopf {pn} {v}",(pn,"BlattWeisskopf",f(v))))
        elif kind=="cm": k=rng.choice(["ChangeMassMin","ChangeMassMax"]); v=numlit(); st.append(("ls",f"{k} {pn} {v}",(pn,k,f(v))))
        else: k=rng.choice(["IncludeBirthFactor","IncludeDecayFactor"]); b=rng.choice(["yes","no"]); st.append(("ls",f"{k} {pn} {b}",(pn,k,b=="yes")))
    rng.shuffle(st)
    # Particle statements need alias knowledge: add after shuffle at random places
    text=[]; 
    for kind,line,_ in st: text.append(line)
    # expected
    for kind,line,a in st:
        if kind=="Alias": exp["alias"][a[0]]=a[1]
        elif kind=="ChargeConj": exp["cc"][a[0]]=a[1]
        elif kind=="Define": exp["define"][a[0]]=f(a[1])
        elif kind=="CopyDecay": exp["copy"][a[0]]=a[1]
        elif kind=="CDecay": exp["cdecay"].append(a[0])
        elif kind=="Pythia":
            v=a[3]; val=f(v) if re.fullmatch(r"[+-]?(\d+\.?\d*([eE][+-]?\d+)?|\.\d+([eE][+-]?\d+)?)",v) else v
            exp["pythia"].setdefault(a[0],{})[f"{a[1]}:{a[2]}"]=val
        elif kind=="JetSet":
            v=a[2]; val=int(v) if re.fullmatch(r"[+-]?\d+",v) else f(v)
            exp["jetset"].setdefault(a[0],{})[a[1]]=val
        elif kind=="LSPW": exp["lspw"].append(([a[0],a[1],a[2]],a[3]))
        elif kind=="Photos": exp["photos"]=1 if a[0] else 0
        elif kind=="ls":
            d=exp["ls"].setdefault(a[0],{})
            if a[1] in d: exp["ls_raises"]=True
            d[a[1]]=a[2]
    return "\n".join(text)+"\n",exp
bad=0
for case in range(int(sys.argv[2]) if len(sys.argv)>2 else 300):
    text,exp=gen()
    p=DecFileParser.from_string(text)
    with warnings.catch_warnings():
        warnings.simplefilter("ignore")
        try: p.parse()
        except Exception as e:
            bad+=1; print("PARSE EXC",type(e).__name__,str(e)[:150]); print(text); continue
        got=dict(alias=p.dict_aliases(),cc=p.dict_charge_conjugates(),define=p.dict_definitions(),copy=p.dict_decays2copy(),cdecay=p.list_charge_conjugate_decays(),pythia=p.dict_pythia_definitions(),jetset=p.dict_jetset_definitions(),lspw=p.list_lineshapePW_definitions(),photos=int(p.global_photos_flag()))
        try: ls=p.dict_lineshape_settings(); raised=False
        except RuntimeError: raised=True
    e=dict(exp); lsx=e.pop("ls"); lr=e.pop("ls_raises"); e["cdecay"]=sorted(e["cdecay"])
    def typed(x): 
        if isinstance(x,dict): return {k:typed(v) for k,v in x.items()}
        if isinstance(x,(list,tuple)): return [typed(v) for v in x]
        return (type(x).__name__,x)
    ok = typed(got)==typed({k:e[k] for k in got}) and raised==lr and (raised or typed(ls)==typed(lsx))
    if not ok:
        bad+=1
        if bad<3:
            print("BAD"); print(text)
            for k in got:
                if typed(got[k])!=typed(e[k]): print(k,got[k],e[k])
            print(raised,lr)
print("bad",bad)
