import itertools, math, random, sys
from collections import Counter
from decaylanguage import DecayChain, DecayMode
from decaylanguage.utils import DescriptorFormat
rng=random.Random(0)
# tree: (name, bf, [children]) child = str leaf or tree. Decaying particle names unique per *type*: same type -> same decay
def gen_types(n):
    """n decaying types T0..Tn-1 (T0 mother), each decays to leaves + later types (acyclic), multiplicities<=3"""
    types={}
    for i in range(n-1,-1,-1):
        later=[f"T{j}" for j in range(i+1,n)]
        ds=[]
        for _ in range(rng.randint(1,3)):
            x=rng.choice(later+["a","b(1)","c'"]) if later else rng.choice(["a","b(1)","c'"])
            ds+= [x]*rng.randint(1,3)
        types[f"T{i}"]=(round(rng.uniform(0.05,0.95),3),ds)
    return types
def reachable(types):
    seen=[]; st=["T0"]
    while st:
        t=st.pop()
        if t in seen: continue
        seen.append(t)
        st+= [d for d in types[t][1] if d in types]
    return seen
def leaves(types,t,S):
    c=Counter(); bf=types[t][0]
    for d in types[t][1]:
        if d in types and d not in S:
            cc,b=leaves(types,d,S); c+=cc; bf*=b
        else: c[d]+=1
    return c,bf
def tree(types,t):
    return (t, tuple(sorted((tree(types,d) if d in types else d for d in types[t][1]),key=repr)))
def read_desc(s):
    toks=s.split(" ")
    assert toks[1]=="->"
    stack=[[toks[0],[]]]
    i=2
    while i<len(toks):
        t=toks[i]
        if t.startswith("(") and i+1<len(toks) and toks[i+1]=="->":
            stack.append([t[1:],[]]); i+=2; continue
        k=t.count(")")-t.count("(")
        name=t[:len(t)-k] if k>0 else t
        if name!="": stack[-1][1].append(name)
        for _ in range(max(k,0)):
            m,kids=stack.pop(); stack[-1][1].append((m,tuple(sorted(kids,key=repr))))
        i+=1
    assert len(stack)==1, s
    return (stack[0][0],tuple(sorted(stack[0][1],key=repr)))
bad=0; n=0
for case in range(int(sys.argv[1]) if len(sys.argv)>1 else 300):
    types=gen_types(rng.choice([1,2,3,4,5,6,8]))
    r=reachable(types)
    keys=list(types); rng.shuffle(keys)
    dc=DecayChain("T0",{k:DecayMode(types[k][0],rng.sample(types[k][1],len(types[k][1])),model="PHSP",note={"k":[1,k]}) for k in keys})
    before=dc.to_dict()
    for S in [(),]+[tuple(rng.sample([t for t in types if t!="T0"],k)) for k in (1,2) if len(types)>k]:
        fl=dc.flatten(stable_particles=list(S)) if S else dc.flatten()
        c,bf=leaves(types,"T0",set(S))
        n+=1
        top=fl.decays["T0"]
        ok = Counter(dict(top.daughters))==c and math.isclose(top.bf,bf,rel_tol=1e-9) and len(fl.decays)==1 and top.metadata.get("model")=="PHSP" and top.metadata.get("note")=={"k":[1,"T0"]} and dc.to_dict()==before
        if not ok: bad+=1; print("FLATTEN BAD",types,S,dict(top.daughters),c,top.bf,bf) if bad<3 else None
    # C11 round trip, C13 descriptor
    try:
        rt=DecayChain.from_dict(before)
        ok = rt.mother=="T0" and set(rt.decays)==set(r) and all(rt.decays[k].bf==types[k][0] and Counter(dict(rt.decays[k].daughters))==Counter(types[k][1]) and rt.decays[k].metadata==dc.decays[k].metadata for k in r) and rt.to_dict()==before
    except Exception as e:
        ok=False; print("RT EXC",type(e).__name__,e) if bad<3 else None
    if not ok: bad+=1
    s=dc.to_string()
    if read_desc(s)!=tree(types,"T0"):
        bad+=1; print("DESC BAD",s,read_desc(s),tree(types,"T0")) if bad<4 else None
    with DescriptorFormat("{mother} --> {daughters}","[{mother} --> {daughters}]"):
        s2=dc.to_string()
    if s2!=s.replace("->","-->").replace("(T","[T") and False: pass
print("cases",n,"bad",bad)
