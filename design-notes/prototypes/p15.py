import json, random, re, subprocess, sys, warnings
from collections import Counter
from particle import latex_to_html_name
from particle.converters.bimap import DirectionalMaps
from decaylanguage import DecFileParser, DecayChainViewer
E2L,_=DirectionalMaps("EvtGenName","LaTexName")
def html(n):
    try: return latex_to_html_name(E2L[n])
    except Exception: return n
rng=random.Random(int(sys.argv[1]) if len(sys.argv)>1 else 0)
REAL=["K+","K-","pi+","pi-","pi0","gamma","D0","anti-D0","D*+","K*0","rho0","J/psi","K_S0","mu+","nu_mu","Upsilon(4S)","B0","anti-B0","eta'","f'_0"]
def gen():
    names=[f"P{i}" if rng.random()<0.4 else rng.choice(REAL)+("" if rng.random()<0.7 else f"sig{i}") for i in range(rng.randint(2,7))]
    names=list(dict.fromkeys(names))
    tabs={}
    for i,m in enumerate(names):
        later=names[i+1:]
        nl=rng.choice([0,1,2,3,4,6]) if i>0 else rng.choice([1,2,4,6])
        lines=[]
        for _ in range(nl):
            stable=[x for x in REAL if x not in names]; ds=[rng.choice(later+stable[:6]) if later else rng.choice(stable[:6]) for _ in range(rng.randint(1,5))]
            if rng.random()<0.3 and ds: ds.append(ds[0])
            lines.append((round(rng.uniform(0.01,0.99),4),ds))
        tabs[m]=lines
    text="".join(f"Decay {m}\n"+"".join(f"{bf} {' '.join(ds)} PHSP;\n" for bf,ds in ls)+"Enddecay\n" for m,ls in tabs.items())
    return text,tabs,names[0]
def canon_expected(tabs,m):
    # canonical: multiset of (label, cells, {slot: sub-canon multiset})
    out=[]
    for bf,ds in tabs[m]:
        subs=tuple(sorted(((i,canon_expected(tabs,d)) for i,d in enumerate(ds) if d in tabs),key=repr))
        out.append((str(bf),tuple(html(d) for d in ds),subs))
    return tuple(sorted(out,key=repr))
def canon_actual(g):
    nodes={o["_gvid"]:o for o in g.get("objects",[])}
    out_edges={}
    for e in g.get("edges",[]): out_edges.setdefault((e["tail"],e.get("tailport")),[]).append(e)
    def cells(o): return tuple(re.findall(r"<TD[^>]*>(.*?)</TD>",o["label"]))
    def rec(nid,ports):
        res=[]
        for port in ports:
            for e in out_edges.get((nid,port),[]):
                h=nodes[e["head"]]; c=cells(h)
                subs=[]
                for i in range(len(c)):
                    sub=rec(h["_gvid"],[f"p{i}"])
                    if sub or (h["_gvid"],f"p{i}") in out_edges: subs.append((i,sub))
                res.append((e["label"],c,tuple(sorted(subs,key=repr)),port))
        return res
    root=[o for o in nodes.values() if o["name"]=="mother"][0]
    def strip(r): return tuple(sorted(((l,c,tuple((i,strip(s)) for i,s in subs)) for l,c,subs,_ in r),key=repr))
    return strip(rec(root["_gvid"],[None])), cells(root), len(nodes), len(g.get("edges",[])), [o["name"] for o in nodes.values()]
bad=0; seen=set()
for case in range(int(sys.argv[2]) if len(sys.argv)>2 else 60):
    text,tabs,top=gen()
    p=DecFileParser.from_string(text)
    with warnings.catch_warnings():
        warnings.simplefilter("ignore"); p.parse()
    chain=p.build_decay_chains(top)
    src=DecayChainViewer(chain).to_string()
    r=subprocess.run(["dot","-Tjson"],input=src.encode(),capture_output=True,timeout=30)
    if r.returncode!=0: bad+=1; print("DOT FAIL",r.stderr[:200]); continue
    g=json.loads(r.stdout)
    act,rootcells,nn,ne,ids=canon_actual(g)
    # expected canon with empty-table daughters: they are dict daughters with [] -> slot has no edges; treat as no subs
    def exp(m):
        out=[]
        for bf,ds in tabs[m]:
            subs=tuple((i,exp(d)) for i,d in enumerate(ds) if d in tabs and tabs[d])
            out.append((str(bf),tuple(html(d) for d in ds),subs))
        return tuple(sorted(out,key=repr))
    def nlines(m): return sum(1+sum(nlines(d) for d in ds if d in tabs) for bf,ds in tabs[m])
    e=exp(top)
    ok = act==e and rootcells==(html(top),) and nn==1+nlines(top) and ne==nlines(top) and len(set(ids))==len(ids) and not (set(ids)-{"mother"})&seen
    seen|=set(ids)-{"mother"}
    if not ok:
        bad+=1
        if bad<3: print("BAD",top,nn,ne,nlines(top)); print(text[:400]); print(str(act)[:300]); print(str(e)[:300])
print("bad",bad)
