import io, contextlib, random, warnings, math, sys
from decaylanguage import DecFileParser
rng=random.Random(int(sys.argv[1]) if len(sys.argv)>1 else 0)
def gen():
    n=rng.choice([1,2,3,4,5,8,12]); lines=[]
    base=[10**rng.uniform(-12,0) for _ in range(n)]
    for i in range(n):
        bf=base[i] if rng.random()>0.3 or i==0 else base[rng.randrange(i)]
        lit=rng.choice([repr(bf), "%.6g"%bf, "%.3e"%bf])
        ds=[rng.choice(["K+","pi-","a/b","X(1)~","q'"]) for _ in range(rng.randint(0,4))]
        ph=rng.random()<0.3; mod=rng.choice(["PHSP","VSS","HELAMP 1.0 0.5 x","SVS"])
        lines.append((lit,ds,ph,mod))
    text="Decay M\n"+"".join(f"{l} {' '.join(d)} {'PHOTOS ' if p else ''}{m};\n" for l,d,p,m in lines)+"Enddecay\n"
    return text,lines
bad=0; n=0
for case in range(400):
    text,lines=gen()
    p=DecFileParser.from_string(text); p.parse()
    for _ in range(4):
        kw=dict(print_model=rng.random()<0.7, display_photos_keyword=rng.random()<0.5, ascending=rng.random()<0.5)
        r=rng.random()
        if r<0.3: kw["normalize"]=True
        elif r<0.6: kw["scale"]=rng.choice([1,0.5,1e-3,0.37])
        f=io.StringIO()
        with contextlib.redirect_stdout(f): p.print_decay_modes("M",**kw)
        rows=[l for l in f.getvalue().splitlines()]
        n+=1
        bfs=[float(l[0]) for l in lines]
        order=sorted(range(len(lines)), key=(lambda i: bfs[i]) if kw["ascending"] else (lambda i: -bfs[i]))
        k=1.0
        if kw.get("normalize"): k=1/sum(bfs)
        if "scale" in kw: k=kw["scale"]/max(bfs)
        ok=len(rows)==len(lines)
        for row,i in zip(rows,order):
            assert row.endswith(";")
            toks=row[:-1].split()
            shown=float(toks[0]); exp=bfs[i]*k
            lit,ds,ph,mod=lines[i]
            if not math.isclose(shown,exp,rel_tol=6e-7,abs_tol=0): ok=False
            rest=toks[1:]
            expect=list(ds)
            if kw["print_model"]:
                mt=mod.split()
                expect+= (["PHOTOS"] if (ph and kw["display_photos_keyword"]) else [])+[mt[0]]+[str(float(x)) if x.replace('.','').isdigit() else x for x in mt[1:]]
            if rest!=expect: ok=False
        if not ok:
            bad+=1
            if bad<4: print("BAD",kw); print(text); print(f.getvalue())
print("runs",n,"bad",bad)
