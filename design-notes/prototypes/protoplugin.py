"""Prototype pytest plugin: arm a reference-reader post-condition on DecFileParser.parse during the repo's own tests."""
import json, os, sys, warnings
sys.path.insert(0, "/tmp/exp/proto")
import refdec
LOG = "/tmp/exp/proto/wtests.log"
stats = {"evals": 0, "agree": 0, "unsupported": 0, "mismatch": 0}
def pytest_configure(config):
    import decaylanguage.dec.dec as D
    from decaylanguage.dec.enums import known_decay_models as K
    real_parse = D.DecFileParser.parse
    real_load = D.DecFileParser.load_additional_decay_models
    user = {}
    def load(self, *models):
        user.setdefault(id(self), []).extend(models)
        return real_load(self, *models)
    def parse(self, include_ccdecays=True):
        r = real_parse(self, include_ccdecays)
        stats["evals"] += 1
        try:
            res = refdec.read(self._dec_file, K, user.get(id(self), ()))
            exp = refdec.expected_tables(res)
        except refdec.Unsupported as e:
            stats["unsupported"] += 1
            return r
        names = self.list_decay_mother_names()
        got = []
        for m in names[:len(exp)]:
            got.append((m, [(d["bf"], tuple(d["fs"]), d["model"], tuple(d["model_params"]) if d["model_params"] else ()) for d in (self._decay_mode_details(x) for x in self._find_decay_modes(m))]))
        if got == exp: stats["agree"] += 1
        else:
            stats["mismatch"] += 1
            with open(LOG, "a") as f: f.write("MISMATCH " + repr(self._dec_file_names) + "\n")
        return r
    D.DecFileParser.parse = parse
    D.DecFileParser.load_additional_decay_models = load
def pytest_unconfigure(config):
    with open(LOG, "a") as f: f.write("STATS " + json.dumps(stats) + "\n")
