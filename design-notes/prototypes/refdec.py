"""Prototype independent reference reader for .dec text (token/gap list + abstract model)."""
import re
from decimal import Decimal

KW_ARITY = {"Alias":2,"ChargeConj":2,"Define":2,"CopyDecay":2,"CDecay":1,"BlattWeisskopf":2,
            "SetLineshapePW":4,"ChangeMassMin":2,"ChangeMassMax":2,"IncludeBirthFactor":2,"IncludeDecayFactor":2,
            "LSFLAT":1,"LSNONRELBW":1,"LSMANYDELTAFUNC":1,"yesPhotos":0,"noPhotos":0}
NUM = re.compile(r"[+-]?(\d+\.?\d*([eE][+-]?\d+)?|\.\d+([eE][+-]?\d+)?)$")
def isnum(t): return bool(NUM.match(t))
def num(t): return float(Decimal(t))
class Unsupported(Exception): pass

def lex(text):
    """-> list of (kind, s): kind in TOK, WS (blanks), NL (newline incl \r), COM (comment). Lossless."""
    out=[]; i=0; n=len(text)
    while i<n:
        c=text[i]
        if c=="#":
            j=text.find("\n",i); j = n if j<0 else j
            out.append(("COM",text[i:j])); i=j
        elif c=="\n": out.append(("NL","\n")); i+=1
        elif c=="\r" and i+1<n and text[i+1]=="\n": out.append(("NL","\r\n")); i+=2
        elif c in " \t":
            j=i
            while j<n and text[j] in " \t": j+=1
            out.append(("WS",text[i:j])); i=j
        elif c in ";,=:": out.append(("TOK",c)); i+=1
        else:
            j=i
            while j<n and text[j] not in " \t\r\n#;,=:": j+=1
            if j==i: raise Unsupported(f"char {c!r}")
            out.append(("TOK",text[i:j])); i=j
    return out

def read(text, models, user_models=()):
    lx = lex(text)
    assert "".join(s for _,s in lx)==text
    toks=[(k,s) for k,s in lx if k in ("TOK","NL")]
    # statements
    modelset=set(models)|set(user_models)
    # first pass: model aliases names
    aliases_m=set()
    sig=[s for k,s in lx if k=="TOK"]
    for i,t in enumerate(sig):
        if t=="ModelAlias" and i+1<len(sig): aliases_m.add(sig[i+1])
    res=dict(decays=[],alias=[],chargeconj=[],define=[],copydecay=[],cdecay=[],particle=[],pythia=[],jetset=[],
             ls=[],bw=[],cm=[],inc=[],lspw=[],photos=[],modelalias=[],end=False)
    i=0; T=[s for k,s in toks]  # with "\n" tokens
    def skipnl(i):
        while i<len(T) and T[i] in ("\n","\r\n"): i+=1
        return i
    def line_tokens(i):
        j=i; out=[]
        while j<len(T) and T[j] not in ("\n","\r\n"): out.append(T[j]); j+=1
        return out,j
    def read_model(ts):
        """ts: tokens from model position up to and excluding ';'. returns (photos, model, params_raw)"""
        photos=False
        if ts and ts[0]=="PHOTOS": photos=True; ts=ts[1:]
        if not ts: raise Unsupported("no model")
        m=ts[0]
        if m not in modelset and m not in aliases_m: raise Unsupported(f"model? {m}")
        params=[t for t in ts[1:] if t not in (",","\n","\r\n")]
        return photos,m,params
    i=skipnl(0)
    while i<len(T):
        t=T[i]
        if res["end"]: raise Unsupported("content after End")
        if t=="Decay":
            lt,j=line_tokens(i)
            if len(lt)!=2: raise Unsupported(f"Decay line {lt}")
            mother=lt[1]; i=skipnl(j); lines=[]
            while True:
                if i>=len(T): raise Unsupported("unterminated Decay")
                if T[i]=="Enddecay": i+=1; break
                # a decay line: tokens until ';' (may span lines)
                ts=[]
                while i<len(T) and T[i]!=";": ts.append(T[i]); i+=1
                if i>=len(T): raise Unsupported("no ;")
                while i<len(T) and T[i]==";": i+=1
                core=[x for x in ts]
                if not core or not isnum(core[0]): raise Unsupported(f"bf? {core[:3]}")
                bf=core[0]; k=1; ds=[]
                while k<len(core) and core[k] not in ("\n","\r\n") and core[k]!="PHOTOS" and core[k] not in modelset and core[k] not in aliases_m:
                    ds.append(core[k]); k+=1
                photos,m,params=read_model(core[k:])
                lines.append(dict(bf=bf,fs=ds,photos=photos,model=m,params=params))
                i=skipnl(i)
            res["decays"].append((mother,lines))
            lt,j=line_tokens(i)
            if lt: raise Unsupported(f"after Enddecay {lt}")
            i=skipnl(j)
            continue
        if t=="ModelAlias":
            ts=[]; i+=1
            while i<len(T) and T[i]!=";": ts.append(T[i]); i+=1
            while i<len(T) and T[i]==";": i+=1
            name=ts[0]; photos,m,params=read_model(ts[1:])
            res["modelalias"].append((name,m,params))
            lt,j=line_tokens(i); 
            if lt: raise Unsupported(f"after ModelAlias {lt}")
            i=skipnl(j); continue
        lt,j=line_tokens(i)
        if t in KW_ARITY:
            if len(lt)-1!=KW_ARITY[t]: raise Unsupported(f"arity {lt}")
            a=lt[1:]
            {"Alias":res["alias"],"ChargeConj":res["chargeconj"],"Define":res["define"],"CopyDecay":res["copydecay"],
             "CDecay":res["cdecay"],"BlattWeisskopf":res["bw"],"SetLineshapePW":res["lspw"],"ChangeMassMin":res["cm"],
             "ChangeMassMax":res["cm"],"IncludeBirthFactor":res["inc"],"IncludeDecayFactor":res["inc"],
             "LSFLAT":res["ls"],"LSNONRELBW":res["ls"],"LSMANYDELTAFUNC":res["ls"],"yesPhotos":res["photos"],"noPhotos":res["photos"]}[t].append((t,*a))
        elif t=="Particle":
            if len(lt) not in (3,4): raise Unsupported(f"Particle {lt}")
            res["particle"].append(tuple(lt[1:]))
        elif t in ("PythiaAliasParam","PythiaBothParam","PythiaGenericParam"):
            if len(lt)!=6 or lt[2]!=":" or lt[4]!="=": raise Unsupported(f"pythia {lt}")
            res["pythia"].append((t,lt[1],lt[3],lt[5]))
        elif t=="JetSetPar":
            if len(lt)!=4 or lt[2]!="=": raise Unsupported(f"jetset {lt}")
            res["jetset"].append((lt[1],lt[3]))
        elif t=="End":
            if len(lt)!=1: raise Unsupported("End +")
            res["end"]=True
        else:
            raise Unsupported(f"statement {lt[:4]}")
        i=skipnl(j)
    return res

def expected_tables(res):
    defs={}
    for _,n,v in res["define"]: defs[n]=num(v)
    mal={}
    for n,m,p in res["modelalias"]: mal[n]=(m,p)
    def P(p):
        if isnum(p): return num(p)
        neg=p[0]=="-"; w=p[1:] if neg else p
        if w in defs: return -defs[w] if neg else defs[w]
        return p
    tabs=[]; seen=set()
    for m,lines in res["decays"]:
        if m in seen: continue
        seen.add(m); out=[]
        for l in lines:
            model,params=l["model"],l["params"]
            if model in mal: model,params=mal[model]
            out.append((num(l["bf"]),tuple(l["fs"]),("PHOTOS " if l["photos"] else "")+model,tuple(P(p) for p in params)))
        tabs.append((m,out))
    return tabs
