import sys, os, glob, random, warnings, time, json
sys.path.insert(0,"/tmp/exp/proto")
import refdec, layout
import decaylanguage
from decaylanguage import DecFileParser
from decaylanguage.dec.enums import known_decay_models as K
base=os.path.dirname(decaylanguage.__file__)
def snap(text, um=()):
    p=DecFileParser.from_string(text)
    if um: p.load_additional_decay_models(*um)
    with warnings.catch_warnings():
        warnings.simplefilter("ignore"); p.parse()
    d={"mothers":p.list_decay_mother_names()}
    d["tabs"]=[[ (x["bf"],x["fs"],x["model"],list(x["model_params"]) if x["model_params"] else []) for x in (p._decay_mode_details(t) for t in p._find_decay_modes(m))] for m in d["mothers"]]
    for q in ["dict_aliases","dict_charge_conjugates","dict_definitions","dict_decays2copy","list_charge_conjugate_decays","dict_pythia_definitions","dict_jetset_definitions","dict_lineshape_settings","list_lineshapePW_definitions","global_photos_flag","dict_model_aliases","get_particle_property_definitions"]:
        try: d[q]=getattr(p,q)()
        except Exception as e: d[q]="RAISES "+type(e).__name__
    return json.dumps(d,sort_keys=True,default=str)
files=[os.path.join(base,"data",f) for f in ("DECAY_LHCB.DEC","DECAY_BELLE2.DEC")]+sorted(glob.glob("/repo/tests/data/*.dec"))
files=[f for f in files if "issue90" not in f]
rng=random.Random(int(sys.argv[1]) if len(sys.argv)>1 else 0)
OPS=["space","comment","blank","indent","wrap","comma","semis"]
nbad=0; nrun=0
for f in files:
    text=open(f,encoding="utf-8").read()
    um=("CUSTOM_MODEL1","CUSTOM_MODEL2") if "custom" in f else ()
    items=layout.segments(text,K,um)
    assert layout.render(items)==text, f
    s0=snap(text,um)
    nvar = 3 if "DECAY_" in f else 6
    for v in range(nvar):
        ops=rng.sample(OPS, rng.randint(1,len(OPS)))
        crlf=rng.choice([None,None,True,False])
        new=layout.render(layout.rewrite(items,rng,ops,p=rng.choice([0.05,0.3,0.8]),crlf=crlf))
        nrun+=1
        try:
            s1=snap(new,um)
        except Exception as e:
            nbad+=1; print("EXC",os.path.basename(f),ops,crlf,type(e).__name__,str(e)[:300].replace("\n"," | ")); 
            open(f"/tmp/exp/proto/bad{nbad}.dec","w",newline="").write(new); continue
        if s1!=s0:
            nbad+=1; print("DIFF",os.path.basename(f),ops,crlf)
            open(f"/tmp/exp/proto/bad{nbad}.dec","w",newline="").write(new)
print("runs",nrun,"bad",nbad)
