import glob, os, sys, warnings, time
sys.path.insert(0, "/tmp/exp/proto")
import refdec
import decaylanguage
from decaylanguage import DecFileParser
from decaylanguage.dec.enums import known_decay_models as K
base=os.path.dirname(decaylanguage.__file__)
files=[os.path.join(base,"data",f) for f in ("DECAY_LHCB.DEC","DECAY_BELLE2.DEC")]+sorted(glob.glob("/repo/tests/data/*.dec"))+sorted(glob.glob("/repo/tests/data/models/*.dec"))
ok=bad=uns=0
for f in files:
    text=open(f,encoding="utf-8").read()
    um=("CUSTOM_MODEL1","CUSTOM_MODEL2") if "custom" in f else ()
    try:
        res=refdec.read(text,K,um)
    except refdec.Unsupported as e:
        uns+=1; print("UNSUPPORTED",os.path.basename(f),e); continue
    exp=refdec.expected_tables(res)
    p=DecFileParser(f)
    if um: p.load_additional_decay_models(*um)
    try:
        with warnings.catch_warnings():
            warnings.simplefilter("ignore"); p.parse(include_ccdecays=False)
    except Exception as e:
        print("PARSE FAIL",os.path.basename(f),type(e).__name__); bad+=1; continue
    ncopy=len(p.dict_decays2copy())
    names=p.list_decay_mother_names()
    got=[]
    for m in names[:len(exp)]:
        got.append((m,[(d["bf"],tuple(d["fs"]),d["model"],tuple(d["model_params"]) if d["model_params"] else ()) for d in (p._decay_mode_details(x) for x in p._find_decay_modes(m))]))
    if got==exp and len(names)==len(exp)+ncopy: ok+=1
    else:
        bad+=1; print("MISMATCH",os.path.basename(f),len(names),len(exp),ncopy)
        for a,b in zip(got,exp):
            if a!=b: print("  got",str(a)[:300]); print("  exp",str(b)[:300]); break
print("ok",ok,"bad",bad,"unsupported",uns,"of",len(files))
