#!/bin/bash
# usage: tools/import_round.sh <seed root dir> <label for variant A> <label for variant B>   -- imports all C??/seed dirs, 4 in parallel
root=$1; la=$2; lb=$3; extra=$4
cd "$(dirname "$0")/.."
ls -d $root/C??/seed | xargs -P 4 -I{} bash -c 'p=$(basename $(dirname {})); seeded/seedtool.py import $p A {} --as '$la' '$extra' 2>&1 | grep -E "STORED|REJECTED"; seeded/seedtool.py import $p B {} --as '$lb' '$extra' 2>&1 | grep -E "STORED|REJECTED"'
