#!/venv/bin/python
"""Regenerates /verif/MANIFEST.json from the table below (keeps it schema-valid at all times)."""
import json
import os
import sys

VERIF = os.path.dirname(os.path.dirname(os.path.abspath(__file__)))

# id -> (technique, level text, level note, design section)
CHECKS = {
    "C01": ("reference-model monitor: generated .dec texts (oracle = the abstract model) and the shipped corpus (oracle = independent reference reader) compared with every decay-table query of the real parser",
            "Exploration: quota-driven generated files over the whole label alphabet, every numeric literal form and every published model name, plus 156 shipped files incl. both master files; "
            "every line of every table is compared field by field, through the public queries the property names.",
            "Held on the texts generated plus the corpora; texts are in L_dec (DESIGN 2.1); corpus files judged only where the reference reader understands them.", "3/C01"),
    "C02": ("metamorphic monitor: snapshots of every public query before/after gap-level semantics-preserving rewrites (R1..R12) and repackaging (string, file, BOM, multi-file)",
            "Exploration: random compositions of 12 rewrites at random subsets of all gaps of generated files, all tests/data files and the master files (sliced in quick, whole in thorough); "
            "each rewrite also applied in isolation; the relation itself is the oracle.",
            "Held on the variants generated; parameter wrapping only on non-empty lists, file splits at line ends between statements or between two lines of a Decay block.", "3/C02"),
    "C03": ("reference-model monitor: generated Decay/Alias/ChargeConj/CopyDecay/CDecay files parsed with both switch values against the reference conjugation semantics; corpus CDecay statements",
            "Exploration: statement-order shuffled files with both ChargeConj orientations, aliases, unknown and self-conjugate daughters, precedence and missing-source cases, both values of the switch; "
            "177 CDecay statements of the master files against the table oracle.",
            "Held on the files generated; one CDecay per name, consistent ChargeConj declarations; name tables of the particle package are the ground truth.", "3/C03"),
    "C04": ("runtime contracts (icontract) on charge_conjugate_name / DaughtersDict.charge_conjugate / DecayMode.charge_conjugate at every import site + exhaustive enumeration of both name tables",
            "Exploration, exhaustive over names: all 806 EvtGen and 1014 PDG names (cold, warm and evicting lru_cache), random final states / modes with multiplicities and metadata, "
            "cross-layer agreement with CDecay-created tables.",
            "Oracle read from the raw csv tables of the particle package (not through Particle.invert()).", "3/C04"),
    "C05": ("reference-model + metamorphic monitor: decay tables of a file versus its textual expansion (Define values, ModelAlias bodies), last definition wins",
            "Exploration: generated files with definitions before/between/after uses, redefinitions, negated and +prefixed uses, aliases with Define'd parameters, uses in copied and conjugated tables; "
            "each file is also parsed in textually expanded form and both table sets must coincide.",
            "Held on the files generated; Define'd names do not start with a sign; aliases stand for published models.", "3/C05"),
    "C06": ("reference-model monitor with exhaustive enumeration: all 135 published names x 8 position contexts, all prefix pairs, user-registered names (special characters), near-miss words must be rejected",
            "Exploration, exhaustive over the published list and its prefix pairs in every run; several hundred user-registered names (one or several registration calls) and near-miss unknown words.",
            "Any exception counts as rejection; neighbouring labels extend model names by letters, digits, '_' only.", "3/C06"),
    "C07": ("reference-model monitor: all eleven global-declaration queries versus dict semantics computed from statement order, exact types; corpus versus reference reader",
            "Exploration: generated files with 0..8 statements of each of the 14 kinds in any order, a quota of repeated names per kind, repeated lineshape settings (must raise), width defaults through aliases.",
            "Held on the files generated; reference widths from the particle data table.", "3/C07"),
    "C08": ("history checker: after every step of a history of queries / mutations of returned values / re-parsing the instance's full snapshot equals that of a fresh instance; identity walk over hooked state for node sharing",
            "Exploration: all histories of length 2 (quick) / 3 (thorough) over 14 operation kinds on 5 fixed files plus random histories up to length 40 on generated files; "
            "structural invariant 'derived tables own their nodes' checked at the quiescent point after each parse().",
            "The identity walk reads the private _parsed_decays; if that attribute disappears it degrades to 'not observed'.", "3/C08"),
    "C09": ("runtime contract (icontract) on the real build_decay_chains (top-level calls) + direct comparison with the unfolding of the generator's abstract tables; LINE-event step budget",
            "Exploration: acyclic generated table sets x all subsets S (small sets) or a covering sample, list/tuple/set, not-found error; master-file mothers below a size bound.",
            "Held on the table sets generated and the corpus mothers explored; acyclic tables only.", "3/C09"),
    "C10": ("runtime contract (icontract) on the real expand_decay_modes: count by sum-of-products DP and multiset of decay paths versus descriptors read back by bracket matching",
            "Exploration: generated acyclic table sets (branching 0..6, aliases decaying and not, empty blocks, zero-daughter lines) and master-file mothers with bounded path count.",
            "Names have balanced parentheses and no blanks; default descriptor format.", "3/C10"),
    "C11": ("runtime contracts (icontract) on DecayChain.to_dict / DecayMode.to_dict (from_dict must give back the object) + direct comparison with the generator's chain; four constructions of a final state",
            "Exploration: enumerated tree shapes and random DAG-shaped chains with JSON-like metadata, parser-produced chains, every PDG ID of the EvtGen table through from_pdgids.",
            "Structural equality on public attributes; model_params None == ''.", "3/C11"),
    "C12": ("runtime contracts (icontract post-conditions + snapshot) on the real DecayChain.flatten under an enumerated and random workload; LINE-event step budget for divergence",
            "Exploration: every rooted tree shape up to 5 (quick) / 6 (thorough) decaying particles x multiplicities 1..3 x every stable subset x orders of the decays mapping, plus random DAG-shaped chains.",
            "Counter arithmetic and float multiplication (rel 1e-9) trusted; chains acyclic, mother not in S.", "3/C12"),
    "C13": ("runtime contract (icontract) on DecayChain.to_string (descriptor read back by bracket matching) + order-independence, injectivity and 8 bracketing pattern pairs",
            "Exploration: enumerated and random chains over names with parentheses, quotes and signs; each tree rendered in 3..24 input orders; reader recognises top-level and nested patterns separately.",
            "Names without blanks and with balanced parentheses; pattern brackets do not occur in names.", "3/C13"),
    "C14": ("history checker: well-nested enter/leave/set/render histories on the real DescriptorFormat compared after every step with a stack model; shadow-stack contracts (icontract) underneath",
            "Exploration, exhaustive over a reduced 9-symbol alphabet up to length 7 (quick) / 8 (thorough) plus random histories up to length 40 over the full alphabet.",
            "Only with-shaped enter/leave sequences; process-wide format reset between histories.", "3/C14"),
    "C15": ("reference-model monitor: DOT source of the real viewer read back by Graphviz (`dot -Tjson`) and compared with a recursive reading of the chain dictionary; identifier uniqueness across graphs",
            "Exploration: chain dictionaries from generated table sets through the real parser and from DecayChain.to_dict(); several viewers per process.",
            "Graphviz and the particle package's LaTeX->HTML conversion are trusted.", "3/C15"),
    "C16": ("reference-model monitor: captured stdout of print_decay_modes read row by row and compared with the abstract table under every option combination",
            "Exploration: generated tables with ties and 8-9 significant digits over 1e-12..1, all 80 option combinations, mother by PDG name; stored values compared before/after.",
            "7-significant-digit rounding allows a relative error of 6e-7 per value.", "3/C16"),
    "C17": ("reference-model monitor: generated AmpGen option texts (oracle = abstract model, golden PDG IDs) versus what the real read_ampgen returns; shipped model versus an independent line reader",
            "Exploration: option texts with nested partial lines, 0..3 alternatives per resonance name, all tag forms, CRLF/comments/indentation, parameter and constant rows, option 0/1/absent.",
            "Golden pool of 29 names; order inside one expansion group not compared; line.fix not compared.", "3/C17"),
    "C18": ("runtime contract (icontract) on ModelDecay.list_structure versus brute force, exhaustively enumerated; emitted C++ (read) and Python (executed against a recording stand-in) versus a per-amplitude oracle",
            "Exploration, (a) exhaustive: all binary tree shapes x leaf labellings x 256 event types; (b) covering design over 11 spin structures x 4 lineshape kinds x 3 event types x 2 languages.",
            "Structure-key -> spin-factor table is the library's published data; golden spin table checked against the particle data.", "3/C18"),
    "C19": ("differential monitor: C++ output (read) versus Python output (executed against a recording stand-in for goofit); def-before-use scan / NameError; returned string vs printed vs command line",
            "Exploration: generated four-body files with fit parameters, spline and K-matrix families, fixed and free couplings, and the shipped model; three entry points per language.",
            "GooFit itself is not installed: vocabulary of the stand-in from the stored reference output; sA_0 exempt for the shipped model only.", "3/C19"),
    "C20": ("history checker over processes: every call of a history run in one fresh interpreter versus the same single call in its own fresh interpreter; PYTHONHASHSEED sweep; byte-exact reproducibility",
            "Exploration: all 36 ordered pairs of a 6-file pool (entry points rotated over 25 ordered pairs), random longer histories, 2 (quick) / 8 (thorough) hash seeds.",
            "Independent declaration blocks compared as multisets; name lookups memoised inside the child interpreters; anchors not traced (child processes).", "3/C20"),
}

NOT_BUILT = {
}

ENGINE = {"name": "vmon", "path": "vmon/", "kind_free_text": "runtime monitoring: reference-model monitors, icontract contracts on the real callables, "
          "history checkers, metamorphic pairs, sys.monitoring anchor coverage, step budgets and failpoints (a library call abandoned at a random line of the library's own code); "
          "workers are subprocesses of ./check, each run under one of four environment profiles (default, C locale, python -O, other cwd / pre-imports / time zone / COLUMNS)"}


def main():
    props = [json.loads(l) for l in open(os.path.join(VERIF, "properties.jsonl"))]
    ids = [p["id"] for p in props]
    checks = []
    for pid in ids:
        if pid not in CHECKS:
            continue
        tech, text, note, ref = CHECKS[pid]
        checks.append({
            "property_id": pid,
            "quick_cmd": f"./check {pid} --tier quick",
            "thorough_cmd": f"./check {pid} --tier thorough",
            "evidence_file": f"evidence/{pid}.json",
            "replay_cmd_template": f"./check {pid} --replay {{path}}",
            "engine": "vmon",
            "level_claimed": {"category": "exploration", "text": text, "design_ref": ref},
            "level_note": note,
            "technique": tech,
        })
    na = [{"property_id": pid, "reason": NOT_BUILT.get(pid, "check not built yet in this round (design in DESIGN.md section 3); not claimed")}
          for pid in ids if pid not in CHECKS]
    man = {
        "version": 1,
        "setup_cmd": "/venv/bin/pip install -q --no-index --find-links /opt/veriftools/wheels --target /verif/.deps icontract deal && touch /verif/.deps/.ok",
        "hooks": {
            "guard": "DECAYLANGUAGE_VERIF",
            "enable": "no in-repository hooks: monitors wrap the real callables from the harness (icontract, sys.monitoring); "
                      "checks import /repo/src directly (PYTHONPATH), so they always run the current working tree",
            "baseline_off_cmd": "cd /repo && /venv/bin/python -m pytest -ra -q -p no:cacheprovider --timeout=900 --continue-on-collection-errors",
            "source_commits": [],
            "add_only": True,
        },
        "engines": [dict(ENGINE, serves_properties=[c["property_id"] for c in checks])],
        "checks": checks,
        "not_applicable": na,
        "notes": "All checks are runtime monitors over executions of the real code; verdicts are three-valued (exit 0 held / 1 violation / 2 inconclusive). "
                 "Genuine defects found were repaired by 'fix:' commits in /repo (see KNOWN_FINDINGS.txt).",
    }
    if not na:
        man.pop("not_applicable")
        man["not_applicable"] = []
    with open(os.path.join(VERIF, "MANIFEST.json"), "w") as f:
        json.dump(man, f, indent=1)
        f.write("\n")
    try:
        sys.path.insert(0, "/opt/veriftools/pyvenv/lib/python3.11/site-packages")
        import jsonschema  # noqa: PLC0415

        jsonschema.validate(man, json.load(open("/root/.vp/MANIFEST.schema.json")))
        print("MANIFEST valid;", len(checks), "checks,", len(na), "not claimed")
    except ImportError:
        print("jsonschema not importable here; manifest written unvalidated")


if __name__ == "__main__":
    main()
