#!/venv/bin/python
"""Regenerates /verif/MANIFEST.json from the table below (keeps it schema-valid at all times)."""
import json
import os
import sys

VERIF = os.path.dirname(os.path.dirname(os.path.abspath(__file__)))

# id -> (technique, level text, level note, design section)
CHECKS = {
    "C12": ("runtime contracts (icontract post-conditions + snapshot) on the real DecayChain.flatten under an enumerated and random workload; "
            "LINE-event step budget for divergence",
            "Exploration: every rooted tree shape up to 5 (quick) / 6 (thorough) decaying particles x multiplicities 1..3 x every stable subset x "
            "orders of the decays mapping, plus random DAG-shaped chains; each flatten() call is judged by post-conditions computed from a "
            "pre-call snapshot (leaves multiset, bf product, metadata, original unchanged) and by a direct comparison with the generator's model.",
            "Held on the executions observed; Counter arithmetic and float multiplication (rel 1e-9) trusted; chains acyclic, mother not in S.",
            "3/C12"),
}

NOT_BUILT = {
}

ENGINE = {"name": "vmon", "path": "vmon/", "kind_free_text": "runtime monitoring: reference-model monitors, icontract contracts on the real callables, "
          "history checkers, metamorphic pairs, sys.monitoring anchor coverage and step budgets; workers are subprocesses of ./check"}


def main():
    props = [json.loads(l) for l in open(os.path.join(VERIF, "properties.jsonl"))]
    ids = [p["id"] for p in props]
    checks = []
    for pid in ids:
        if pid not in CHECKS:
            continue
        tech, text, note, ref = CHECKS[pid]
        checks.append({
            "property_id": pid,
            "quick_cmd": f"./check {pid} --tier quick",
            "thorough_cmd": f"./check {pid} --tier thorough",
            "evidence_file": f"evidence/{pid}.json",
            "replay_cmd_template": f"./check {pid} --replay {{path}}",
            "engine": "vmon",
            "level_claimed": {"category": "exploration", "text": text, "design_ref": ref},
            "level_note": note,
            "technique": tech,
        })
    na = [{"property_id": pid, "reason": NOT_BUILT.get(pid, "check not built yet in this round (design in DESIGN.md section 3); not claimed")}
          for pid in ids if pid not in CHECKS]
    man = {
        "version": 1,
        "setup_cmd": "/venv/bin/pip install -q --no-index --find-links /opt/veriftools/wheels --target /verif/.deps icontract deal && touch /verif/.deps/.ok",
        "hooks": {
            "guard": "DECAYLANGUAGE_VERIF",
            "enable": "no in-repository hooks: monitors wrap the real callables from the harness (icontract, sys.monitoring); "
                      "checks import /repo/src directly (PYTHONPATH), so they always run the current working tree",
            "baseline_off_cmd": "cd /repo && /venv/bin/python -m pytest -ra -q -p no:cacheprovider --timeout=900 --continue-on-collection-errors",
            "source_commits": [],
            "add_only": True,
        },
        "engines": [dict(ENGINE, serves_properties=[c["property_id"] for c in checks])],
        "checks": checks,
        "not_applicable": na,
        "notes": "All checks are runtime monitors over executions of the real code; verdicts are three-valued (exit 0 held / 1 violation / 2 inconclusive). "
                 "Genuine defects found were repaired by 'fix:' commits in /repo (see KNOWN_FINDINGS.txt).",
    }
    if not na:
        man.pop("not_applicable")
        man["not_applicable"] = []
    with open(os.path.join(VERIF, "MANIFEST.json"), "w") as f:
        json.dump(man, f, indent=1)
        f.write("\n")
    try:
        sys.path.insert(0, "/opt/veriftools/pyvenv/lib/python3.11/site-packages")
        import jsonschema  # noqa: PLC0415

        jsonschema.validate(man, json.load(open("/root/.vp/MANIFEST.schema.json")))
        print("MANIFEST valid;", len(checks), "checks,", len(na), "not claimed")
    except ImportError:
        print("jsonschema not importable here; manifest written unvalidated")


if __name__ == "__main__":
    main()
