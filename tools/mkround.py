#!/usr/bin/env python3
"""tools/mkround.py <root> -- prepare a seeding round: one scratch git worktree of /repo per property under <root>/C??,
with seed/PROPERTY.txt (the property text only) and seed/EXPLORED.txt (one line per change of earlier rounds: what was
changed and what it needed -- nothing about the checks).  Nothing of /verif's machinery is copied."""
import json, os, re, subprocess, sys

root = sys.argv[1]
here = os.path.dirname(os.path.dirname(os.path.abspath(__file__)))
props = [json.loads(l) for l in open(os.path.join(here, "properties.jsonl")) if l.strip()]
design = open(os.path.join(here, "DESIGN.md"), encoding="utf-8").read()
explored = {}
for m in re.finditer(r"^\| (C\d\d)-[A-Z] ([^|]*)\|([^|]*)\|", design, re.M):
    explored.setdefault(m.group(1), []).append(f"- {m.group(2).strip()}  [needed: {m.group(3).strip()}]")
# changes that were caught as they came are listed in prose: "C03-M / C03-N (one-shot `map`; early return on an empty ChargeConj table)"
for m in re.finditer(r"(C\d\d)-[A-Z](?: / C\d\d-[A-Z])? \(([^)]*)\)", design):
    for part in m.group(2).split(";"):
        if part.strip() and len(part) < 200:
            explored.setdefault(m.group(1), []).append(f"- {part.strip()}")
os.makedirs(root, exist_ok=True)
for p in props:
    pid = p["id"]
    wt = os.path.join(root, pid)
    if not os.path.exists(wt):
        subprocess.run(["git", "-C", "/repo", "worktree", "add", "--detach", "-q", wt, "HEAD"], check=True)
        subprocess.run(["cp", "/repo/src/decaylanguage/_version.py", os.path.join(wt, "src/decaylanguage/_version.py")], check=True)
    os.makedirs(os.path.join(wt, "seed"), exist_ok=True)
    with open(os.path.join(wt, "seed", "PROPERTY.txt"), "w") as f:
        f.write(json.dumps({k: v for k, v in p.items()}, indent=1, ensure_ascii=False) + "\n")
    with open(os.path.join(wt, "seed", "EXPLORED.txt"), "w") as f:
        f.write("\n".join(explored.get(pid, [])) + "\n")
    print(pid, len(explored.get(pid, [])), "explored")
