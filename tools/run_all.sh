#!/bin/bash
# usage: tools/run_all.sh [quick|thorough] [ids...]   -- runs the checks one after another, prints one summary line each
cd "$(dirname "$0")/.."
tier=${1:-quick}; shift
ids=${@:-C01 C02 C03 C04 C05 C06 C07 C08 C09 C10 C11 C12 C13 C14 C15 C16 C17 C18 C19 C20}
rc_all=0
for id in $ids; do
  out=$(./check $id --tier $tier 2>&1); rc=$?
  echo "$id rc=$rc $(echo "$out" | grep -E "^$id tier" )"
  if [ $rc -ne 0 ]; then rc_all=1; echo "$out" | grep -E "VIOLATION|INCONCLUSIVE|mechanism" | head -8; fi
done
exit $rc_all
