"""vmon -- runtime monitors for scikit-hep/decaylanguage (see ../DESIGN.md)."""
