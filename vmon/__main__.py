from __future__ import annotations

import argparse
import os
import sys

from . import core


def main() -> int:
    ap = argparse.ArgumentParser(prog="check")
    ap.add_argument("pid")
    ap.add_argument("--tier", default=os.environ.get("VERIF_TIER") or "quick", choices=["quick", "thorough"])
    ap.add_argument("--replay")
    ap.add_argument("--worker")
    ap.add_argument("--workers", type=int)
    ap.add_argument("--out")
    a = ap.parse_args()
    if a.pid not in core.ALL_IDS:
        print("unknown property", a.pid)
        return 2
    if a.replay:
        return core.run_replay(a.pid, a.replay)
    if a.worker:
        i, n = a.worker.split("/")
        seed = int(os.environ.get("VERIF_SEED", "0") or 0)
        return core.run_worker(a.pid, a.tier, seed, int(i), int(n), a.out)
    return core.run_parent(a.pid, a.tier, a.workers)


if __name__ == "__main__":
    sys.exit(main())
