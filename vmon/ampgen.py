"""AmpGen side: golden name pool, lookup accelerator, generators of option texts with their abstract model.

The expected rendering of a name is str(Particle.from_pdgid(id)) with the PDG ID fixed *here* (golden
pool, taken from the repository's own tests, the shipped model and its stored reference output), so the
name lookup of the code under test (particle_from_string_name) is compared with fixed data.
"""
from __future__ import annotations

import cmath
import itertools

POOL = {"D0": 421, "K-": -321, "pi+": 211, "pi-": -211, "K+": 321, "pi0": 111, "K*(892)bar0": -313, "K*(892)0": 313, "rho(770)0": 113,
        "rho(1450)0": 100113, "omega(782)0": 223, "K(1)(1270)bar-": -10323, "K(1)(1270)+": 10323, "K(1)(1400)bar-": -20323, "K(1460)bar-": -100321,
        "K(2)*(1430)bar-": -325, "a(1)(1260)+": 20213, "a(1)(1260)-": -20213, "KPi00": 998111, "KPi10": 988111, "KPi20": 978111, "PiPi00": 998101,
        "PiPi10": 988101, "PiPi20": 978101, "PiPi30": 968101, "phi(1020)0": 333, "f(0)(980)0": 9010221, "f(2)(1270)0": 225, "K(0)*(1430)bar0": -10311}
ALT_SPELLING = {"K*(892)bar0": "K*bar0", "K*(892)0": "K*0", "rho(770)0": "rho0", "K(1)(1270)bar-": "K(1)(1270)-", "a(1)(1260)+": "a(1)+", "K(1)(1400)bar-": "K(1)(1400)-"}
POOL.update({"K*bar0": -313, "K*0": 313, "rho0": 113, "K(1)(1270)-": -10323, "a(1)+": 20213, "K(1)(1400)-": -20323})
FINALS = ["K-", "pi+", "pi-", "K+"]
RES2 = ["K*(892)bar0", "rho(770)0", "rho(1450)0", "omega(782)0", "KPi00", "PiPi00", "PiPi10", "phi(1020)0", "f(0)(980)0", "K*(892)0", "f(2)(1270)0"]
RES3 = ["K(1)(1270)bar-", "K(1)(1400)bar-", "K(1460)bar-", "a(1)(1260)+", "K(2)*(1430)bar-", "K(1)(1270)+", "a(1)(1260)-"]
SPIN = [None, "S", "P", "D"]
LSTAG = [None, "GSpline.EFF", "kMatrix.pole.1", "FOCUS.Kpi", "BW", "kMatrix.prod.0", "FOCUS.I32", "SBW", "PolyNR.1", "DD", "Poly.2"]     # also names that begin with a spin letter
EVENT_TYPES = [["D0", "K-", "pi+", "pi+", "pi-"], ["D0", "pi+", "pi-", "pi+", "pi-"], ["D0", "K+", "K-", "pi+", "pi-"], ["D0", "K-", "pi+", "pi0"],
               ["D0", "K-", "pi+", "pi+", "pi+"]]        # the last one: a particle three times (3! assignments)

_memo: dict = {}
_memo_stats = {"hits": 0, "misses": 0}
_installed = [False]


def install_memo():
    """Wrap the *real* particle_list_from_string_name in a memo keyed by (name, size of the particle table).
    The function is a pure lookup in trusted data; it still runs once per name per process."""
    if _installed[0]:
        return
    import decaylanguage.utils.particleutils as PU  # noqa: PLC0415
    from particle import Particle  # noqa: PLC0415

    real = PU.particle_list_from_string_name

    def cached(name):
        key = (name, len(Particle.all()))
        if key not in _memo:
            _memo_stats["misses"] += 1
            _memo[key] = real(name)
        else:
            _memo_stats["hits"] += 1
        return list(_memo[key])

    cached.__wrapped__ = real
    PU.particle_list_from_string_name = cached
    _installed[0] = True
    ensure_special_particles()


def uninstall_memo():
    if _installed[0]:
        import decaylanguage.utils.particleutils as PU  # noqa: PLC0415

        PU.particle_list_from_string_name = PU.particle_list_from_string_name.__wrapped__
        _installed[0] = False


def pname(n):
    from particle import Particle  # noqa: PLC0415

    return str(Particle.from_pdgid(POOL[n]))


def ensure_special_particles():
    """The special Mint particles (KPi00, PiPi00, ...) are appended to the particle table by the library on its first read;
    a priming read lets the library's own one-time loading do it (rather than loading the table from here)."""
    from particle import Particle  # noqa: PLC0415

    if 998100 not in Particle.all():
        from decaylanguage.modeling.amplitudechain import AmplitudeChain  # noqa: PLC0415

        AmplitudeChain.read_ampgen(text="EventType D0 K- pi+ pi+ pi-\nD0{K-,pi+} 2 1 0 2 0 0\n")


class Node:
    def __init__(self, name, spin=None, ls=None, kids=None):
        self.name, self.spin, self.ls, self.kids = name, spin, ls, kids

    def tag(self):
        if self.spin and self.ls:
            return f"[{self.spin};{self.ls}]"
        if self.spin:
            return f"[{self.spin}]"
        if self.ls:
            return f"[{self.ls}]"
        return ""

    def text(self):
        t = self.name
        if self.kids is not None:
            t += self.tag() + "{" + ",".join(k.text() for k in self.kids) + "}"
        return t

    def to_json(self):
        return {"name": self.name, "spin": self.spin, "ls": self.ls, "kids": None if self.kids is None else [k.to_json() for k in self.kids]}

    @classmethod
    def from_json(cls, d):
        return cls(d["name"], d["spin"], d["ls"], None if d["kids"] is None else [cls.from_json(k) for k in d["kids"]])


def gen_model(rng):
    """Abstract option file: {"event": [...], "lines": [{"kind": top|sub, "node": Node, "nums": (f1,A,dA,f2,ph,dph)}], "params": [...], "consts": [...],
    "cartesian": None|0|1, "extras": [...]} -- acyclic by construction (RES3 alternatives may dangle RES2 only)."""
    def tags(allow_ls=True):
        return rng.choice(SPIN), (rng.choice(LSTAG) if allow_ls else None)

    def sub2(name):
        sp, ls = tags()
        return Node(name, sp, ls, [Node(rng.choice(FINALS)), Node(rng.choice(FINALS))])

    def sub3(name):
        sp, ls = tags()
        r = rng.choice(RES2)
        kid = sub2(r) if rng.random() < 0.5 else Node(r)
        pair = [kid, Node(rng.choice(FINALS))]
        if rng.random() < 0.3:
            pair.reverse()
        return Node(name, sp, ls, pair)

    event = rng.choice(EVENT_TYPES[:3]) if rng.random() < 0.9 else EVENT_TYPES[3]
    tops = []
    for _ in range(rng.choice([1, 1, 2, 3, 4, 6])):
        sp = rng.choice(SPIN)
        if rng.random() < 0.5:
            a, b = rng.choice(RES2), rng.choice(RES2)
            if rng.random() < 0.15:
                b = a       # the same resonance on both sides (as 4-pion / K K pi pi event types allow), written with other tags / one of them bare
            tops.append(Node("D0", sp, None, [sub2(a) if rng.random() < 0.5 else Node(a), sub2(b) if rng.random() < 0.5 else Node(b)]))
        else:
            a = rng.choice(RES3)
            tops.append(Node("D0", sp, None, [sub3(a) if rng.random() < 0.5 else Node(a), Node(rng.choice(FINALS))]))

    def dangling(n, acc):
        if n.kids is None:
            if n.name in RES2 or n.name in RES3:
                acc.add(n.name)
        else:
            for k in n.kids:
                dangling(k, acc)

    todo = set()
    for t in tops:
        dangling(t, todo)
    subl, done = {}, set()
    while todo:
        nm = sorted(todo)[0]
        todo.discard(nm)
        done.add(nm)
        alts = []
        for _ in range(rng.choice([0, 1, 2, 2, 3])):
            a = sub2(nm) if nm in RES2 else sub3(nm)
            alts.append(a)
            acc = set()
            dangling(a, acc)
            todo |= {x for x in acc if x not in done and x != nm}
        subl[nm] = alts
    if rng.random() < 0.15:
        # one *bare* use written in another accepted spelling of the same particle (K*bar0 for K*(892)bar0): sub-lines are given per written name,
        # so that use finds none and stays as it is
        bare = []

        def collect(n):
            if n.kids is None:
                if n.name in ALT_SPELLING:
                    bare.append(n)
            else:
                for k in n.kids:
                    collect(k)

        for t in tops:
            collect(t)
        if bare:
            n = rng.choice(bare)
            n.name = ALT_SPELLING[n.name]
            n.alt_spelling = True
    lines = [{"kind": "top", "node": t} for t in tops] + [{"kind": "sub", "node": a} for nm in subl for a in subl[nm]]
    if rng.random() < 0.12:
        # the same complete line written twice (other couplings): two amplitudes, each stated once
        lines.append({"kind": "top", "node": rng.choice(tops), "twice": True})
    rng.shuffle(lines)
    for ln in lines:
        mag = round(rng.uniform(0.1, 2), 4) if rng.random() < 0.88 else rng.choice(["4.2e-09", "1e-12", "7.5E-10", "3e-5", "1250.5"])      # also very small couplings
        pha = round(rng.uniform(-3.1, 3.1), 4) if rng.random() < 0.88 else rng.choice(["1e-09", "-1e-10", "3.14159265", "0", "-3.1415926535", "6.5e-7", "1e12", "-7.5e15", "123456.789"])   # phases next to 0 and pi, and many turns away
        ln["nums"] = (rng.choice([0, 2, "2.0", "0.0", 3, "0.", "+0", "00"]), mag, round(rng.uniform(0, 0.1), 4),
                      rng.choice([0, 2, "2.0", "+2", "0.0"]), pha, round(rng.uniform(0, 0.1), 4))
    params = []
    for i in range(rng.choice([0, 0, 1, 2, 4, 8])):
        nm = rng.choice(["D0_radius", "f_scatt", "IS_p1_", "s0_prod", "sA", "K(1)(1270)bar-_mass", "a(1)(1260)+_width", "x::y"]) + str(i)
        params.append((nm, rng.choice([0, 2, 3, "2.0", "0.0", "-1", "0.", "+0", "00"]), rng.choice(["0.0037559", "-0.39899", "1289.81", "2", "1e-3", "+0.5"]), rng.choice(["0", "0.557988", "1.5"])))
    consts = []
    for i in range(rng.choice([0, 0, 1, 2, 3])):
        consts.append((rng.choice(["a(1)(1260)+::Spline::Min", "K(1460)bar-::Spline::N", "K(1)(1270)bar-::Spline::Max", "Some::Const"]) + ("" if i == 0 or rng.random() < 0.3 else str(i)),
                       rng.choice(["0.18412", "40", "3", "1.9", "-2.5"])))
    cart = rng.choice([None, None, 0, 1])
    extras = []
    if rng.random() < 0.2:
        extras.append('Output "out.root"')
    if rng.random() < 0.2:
        extras.append("nEvents 1000")
    if rng.random() < 0.2:   # line kinds of the grammar that state neither an amplitude nor a table row
        extras.append("D0{K-,pi+} 2 1.5 0.1")
    if rng.random() < 0.2:
        extras.append("K*(892)bar0 = K*(892)0")
    return {"event": event, "lines": lines, "params": params, "consts": consts, "cartesian": cart, "extras": extras}


ABANDONED_TEXT = ("EventType D0 K- pi+ pi+ pi-\nFastCoherentSum::UseCartesian 1\n"
                  "D0{K*(892)bar0{K-,pi+},rho(770)0{pi+,pi-}} 0 0.5 0.1 0 -1.25 0.1\n"
                  "D0[D]{K*(892)bar0{K-,pi+},omega(782)0{pi+,pi-}} 2 1.5 0 2 0.75 0\n"
                  "K(1)(1270)bar-::mass 2 1.272 0\n")


def render(model, rng=None, style=None):
    """Option text.  style: dict(crlf, indent, comments, blank) decided by rng when not given."""
    import random  # noqa: PLC0415

    rng = rng or random.Random(0)
    style = style or {"crlf": rng.random() < 0.2, "indent": rng.random() < 0.4, "comments": rng.random() < 0.5, "blank": rng.random() < 0.5}
    head = []
    for ln in model["lines"]:
        f1, a, da, f2, ph, dph = ln["nums"]
        head.append(f"{ln['node'].text()}  {f1} {a} {da} {f2} {ph} {dph}")
    plines = [f"{nm}   {fl}   {v}   {e}" for nm, fl, v, e in model["params"]]
    clines = [f"{nm} {v}" for nm, v in model["consts"]]
    opts = list(model["extras"])
    if model["cartesian"] is not None:
        opts.append(f"FastCoherentSum::UseCartesian {model['cartesian']}")
    # statements of different kinds interleave freely; the relative order inside each kind is kept (it is observable)
    groups = [g for g in (head, plines, clines, opts) if g]
    mixed = []
    while groups:
        g = rng.choice(groups)
        mixed.append(g.pop(0))
        if not g:
            groups.remove(g)
    allines = ["EventType " + " ".join(model["event"])]
    pos = rng.randint(0, len(mixed)) if rng.random() < 0.3 else 0
    mixed.insert(pos, allines[0])
    out = []
    nl = "\r\n" if style["crlf"] else "\n"
    if style["blank"] and rng.random() < 0.5:
        out.append("")
    if style["comments"] and rng.random() < 0.5:
        # (comments are free text: accents, Greek letters and arrows included -- the files are UTF-8)
        out.append(rng.choice(["# generated option file", "# D\u2070 \u2192 K\u207b \u03c0\u207a \u03c0\u207a \u03c0\u207b, fit by Jos\u00e9 M\u00fcller", "# r\u00e9sonances: K*(892), \u03c1(770)"]))
    for s in mixed:
        ind = rng.choice(["", "  ", "\t", "    "]) if style["indent"] else ""
        out.append(ind + s + (rng.choice(["", "  # trailing comment", " #x"]) if style["comments"] and rng.random() < 0.3 else ""))
        if style["blank"] and rng.random() < 0.2:
            out.append("")
        if style["comments"] and rng.random() < 0.15:
            out.append(rng.choice(["# D0{K-,pi+} 2 1 0 2 0 0", "# \u0394m = 0.5 ps\u207b\u00b9  D0{K-,pi+} 2 1 0 2 0 0"]))
    return nl.join(out) + nl


def order_of_subs(model):
    order = {}
    for ln in model["lines"]:
        if ln["kind"] == "sub":
            order.setdefault(ln["node"].name, []).append(ln["node"])
    return order


def expected(model):
    """What reading the text must yield (amplitude groups per top line in file order; names rendered through the golden pool)."""
    subs = order_of_subs(model)

    def render_node(n, kidstrs):
        return pname(n.name) + n.tag() + "{" + ",".join(kidstrs) + "}"

    def expand(n):
        if n.kids is not None:
            return [render_node(n, combo) for combo in itertools.product(*[expand(k) for k in n.kids])]
        res = [x for a in subs.get(n.name, []) for x in expand(a)]
        return res if res else [pname(n.name)]

    groups = []
    cart = bool(model["cartesian"])
    for ln in model["lines"]:
        if ln["kind"] != "top":
            continue
        f1, a, da, f2, ph, dph = ln["nums"]
        a, ph = float(a), float(ph)
        amp = complex(a, ph) if cart else cmath.rect(a, ph)
        groups.append({"strs": expand(ln["node"]), "amp": amp, "spin": ln["node"].spin, "ls": ln["node"].ls})
    params = [(nm, float(fl) > 0, float(v), float(e)) for nm, fl, v, e in model["params"]]
    consts = [(nm, float(v)) for nm, v in model["consts"]]
    return {"states": [pname(x) for x in model["event"]], "groups": groups, "params": params, "consts": consts}


def model_to_json(model):
    return {**{k: v for k, v in model.items() if k != "lines"}, "lines": [{"kind": ln["kind"], "node": ln["node"].to_json(), "nums": list(ln["nums"])} for ln in model["lines"]]}


def model_from_json(d):
    return {**{k: v for k, v in d.items() if k != "lines"},
            "params": [tuple(x) for x in d["params"]], "consts": [tuple(x) for x in d["consts"]],
            "lines": [{"kind": ln["kind"], "node": Node.from_json(ln["node"]), "nums": tuple(ln["nums"])} for ln in d["lines"]]}


# --------------------------------------------------------------------------------------------------
# four-body side (C18 / C19 / C20): templates over all supported spin structures, oracle per amplitude

# golden spin table: name -> (letter used in the structure key, J)
SPINS = {**{n: ("V", 1) for n in ["K*(892)bar0", "K*(892)0", "rho(770)0", "rho(1450)0", "omega(782)0", "phi(1020)0"]},
         **{n: ("S", 0) for n in ["KPi00", "KPi10", "KPi20", "PiPi00", "PiPi10", "PiPi20", "PiPi30", "f(0)(980)0", "K(0)*(1430)bar0"]},
         **{n: ("A", 1) for n in ["K(1)(1270)bar-", "K(1)(1270)+", "K(1)(1400)bar-", "a(1)(1260)+", "a(1)(1260)-"]},
         **{n: ("s", 0) for n in ["K(1460)bar-", "K-", "K+", "pi+", "pi-", "pi0", "D0"]},
         **{n: ("T", 2) for n in ["K(2)*(1430)bar-", "f(2)(1270)0"]}}

TEMPLATES = {
    0: {  # D0 K- pi+ pi+ pi-
        "VV": ["D0%s{K*(892)bar0{K-,pi+},rho(770)0{pi+,pi-}}", "D0%s{rho(1450)0{pi+,pi-},K*(892)bar0{K-,pi+}}", "D0%s{K*(892)bar0{K-,pi+},omega(782)0{pi+,pi-}}"],
        "VS": ["D0{K*(892)bar0{K-,pi+},PiPi00{pi+,pi-}}", "D0{rho(770)0{pi+,pi-},KPi00{K-,pi+}}", "D0{K*(892)bar0{K-,pi+},PiPi10{pi+,pi-}}"],
        "SS": ["D0{KPi00{K-,pi+},PiPi00{pi+,pi-}}", "D0{KPi10{K-,pi+},PiPi20{pi+,pi-}}"],
        "AVP": ["D0{K(1)(1270)bar-%s{K*(892)bar0{K-,pi+},pi-},pi+}", "D0{a(1)(1260)+%s{rho(770)0{pi+,pi-},pi+},K-}", "D0{K(1)(1400)bar-%s{K*(892)bar0{K-,pi+},pi-},pi+}",
                "D0{K(1)(1270)bar-%s{rho(770)0{pi+,pi-},K-},pi+}"],
        "ASP": ["D0{K(1)(1270)bar-{KPi00{K-,pi+},pi-},pi+}", "D0{a(1)(1260)+{PiPi00{pi+,pi-},pi+},K-}"],
        "TVP": ["D0{K(2)*(1430)bar-{K*(892)bar0{K-,pi+},pi-},pi+}"],
        "sSP": ["D0{K(1460)bar-{PiPi00{pi+,pi-},K-},pi+}", "D0{K(1460)bar-{KPi00{K-,pi+},pi-},pi+}"],
        "sVP": ["D0{K(1460)bar-{K*(892)bar0{K-,pi+},pi-},pi+}"],
    },
    1: {  # D0 pi+ pi- pi+ pi-
        "VV": ["D0%s{rho(770)0{pi+,pi-},rho(770)0{pi+,pi-}}", "D0%s{rho(770)0{pi+,pi-},rho(1450)0{pi+,pi-}}"],
        "VS": ["D0{rho(770)0{pi+,pi-},PiPi00{pi+,pi-}}"],
        "SS": ["D0{PiPi00{pi+,pi-},PiPi10{pi+,pi-}}"],
        "AVP": ["D0{a(1)(1260)+%s{rho(770)0{pi+,pi-},pi+},pi-}", "D0{a(1)(1260)-%s{rho(770)0{pi+,pi-},pi-},pi+}"],
        "ASP": ["D0{a(1)(1260)+{PiPi00{pi+,pi-},pi+},pi-}"],
    },
    2: {  # D0 K+ K- pi+ pi-
        "VV": ["D0%s{phi(1020)0{K+,K-},rho(770)0{pi+,pi-}}", "D0%s{K*(892)0{K+,pi-},K*(892)bar0{K-,pi+}}"],
        "VS": ["D0{phi(1020)0{K+,K-},PiPi00{pi+,pi-}}", "D0{K*(892)0{K+,pi-},KPi00{K-,pi+}}"],
        "SS": ["D0{f(0)(980)0{K+,K-},PiPi00{pi+,pi-}}"],
        "AVP": ["D0{K(1)(1270)+%s{K*(892)0{K+,pi-},pi+},K-}", "D0{K(1)(1270)bar-%s{K*(892)bar0{K-,pi+},pi-},K+}"],
        "ASP": ["D0{K(1)(1270)bar-{KPi00{K-,pi+},pi-},K+}"],
        "TVP": ["D0{K(2)*(1430)bar-{K*(892)bar0{K-,pi+},pi-},K+}"],
        "sSP": ["D0{K(1460)bar-{KPi00{K-,pi+},pi-},K+}"],
        "sVP": ["D0{K(1460)bar-{K*(892)bar0{K-,pi+},pi-},K+}"],
    },
}
TEMPLATES[4] = {  # D0 K- pi+ pi+ pi+ (the code does not look at charges)
    "VS": ["D0{K*(892)bar0{K-,pi+},PiPi00{pi+,pi+}}"],
    "SS": ["D0{KPi00{K-,pi+},PiPi00{pi+,pi+}}"],
    "AVP": ["D0{K(1)(1270)bar-%s{K*(892)bar0{K-,pi+},pi+},pi+}"],
    "ASP": ["D0{K(1)(1270)bar-{KPi00{K-,pi+},pi+},pi+}"],
    "TVP": ["D0{K(2)*(1430)bar-{K*(892)bar0{K-,pi+},pi+},pi+}"],
    "sVP": ["D0{K(1460)bar-{K*(892)bar0{K-,pi+},pi+},pi+}"],
}
# the 11 structure keys of the library's published table, by (template family, wave tag)
STRUCTURES = [("VV", ""), ("VV", "[P]"), ("VV", "[D]"), ("VS", ""), ("SS", ""), ("AVP", ""), ("AVP", "[D]"), ("ASP", ""), ("TVP", ""), ("sSP", ""), ("sVP", "")]
LS_KINDS = ["RBW", "GSpline", "kMatrix", "FOCUS"]


def parse_decay(s):
    import re  # noqa: PLC0415

    m = re.match(r"([^\[\{,\}]+)(\[[^\]]*\])?(\{)?", s)
    name, tag, brace = m.group(1), m.group(2), m.group(3)
    if not brace:
        return Node(name), len(name)
    i = m.end()
    kids = []
    while True:
        k, n = parse_decay(s[i:])
        kids.append(k)
        i += n
        if s[i] == ",":
            i += 1
        elif s[i] == "}":
            i += 1
            break
    sp = ls = None
    if tag:
        parts = tag[1:-1].split(";")
        if parts[0] in ("S", "P", "D"):
            sp = parts[0]
            ls = parts[1] if len(parts) > 1 else None
        else:
            ls = parts[0]
    return Node(name, sp, ls, kids), i


def ls_tag(rng, kind):
    if kind == "RBW":
        return None
    if kind == "GSpline":
        return "GSpline.EFF"
    if kind == "kMatrix":
        return rng.choice(["kMatrix.pole.0", "kMatrix.pole.1", "kMatrix.prod.0", "kMatrix.prod.1"])
    return rng.choice(["FOCUS.Kpi", "FOCUS.KEta", "FOCUS.I32"])


def resonances(node):
    out = []
    if node.kids is not None:
        if node.name != "D0":
            out.append(node)
        for k in node.kids:
            out += resonances(k)
    return out


def gen_fourbody(rng, event_idx=None, picks=None, namps=None, dangle=True, template=None):
    """Abstract four-body option file over the supported spin structures.  picks: [(family, wave, lineshape kind)] to force."""
    event_idx = rng.choice([0, 1, 2, 4]) if event_idx is None else event_idx
    event = list(EVENT_TYPES[event_idx])
    if rng.random() < 0.5:        # any arrangement of the final state (identical particles adjacent or not)
        finals = event[1:]
        rng.shuffle(finals)
        event = [event[0], *finals]
    fams = TEMPLATES[event_idx]
    if picks is None:
        picks = []
        for _ in range(namps or rng.choice([1, 2, 3])):
            fam, wave = rng.choice([s for s in STRUCTURES if s[0] in fams])
            picks.append((fam, wave, rng.choice(LS_KINDS)))
    lines = []
    seen = set()
    for fam, wave, lsk in picks:
        if fam not in fams:
            continue
        t = rng.choice(fams[fam]) if template is None else fams[fam][template % len(fams[fam])]
        txt = t % wave if "%s" in t else t
        if txt in seen:
            continue
        seen.add(txt)
        top, _ = parse_decay(txt)
        res = resonances(top)
        # the requested lineshape kind on one resonance, random kinds on the others
        for j, r in enumerate(res):
            k = lsk if j == (len(res) - 1 if lsk in ("kMatrix", "FOCUS") else 0) else rng.choice(["RBW", "RBW", "GSpline", "kMatrix", "FOCUS"])
            r.ls = ls_tag(rng, k)
        if rng.random() < 0.2:
            # the two daughters of a two-body vertex written the other way round (rho(770)0{pi-,pi+}): the same amplitude, positions taken from the text
            cand = [q for q in res if q.kids is not None and len(q.kids) == 2 and all(k.kids is None for k in q.kids) and q.kids[0].name != q.kids[1].name]
            if cand:
                rng.choice(cand).kids.reverse()
                top.reversed_vertex = True
        lines.append({"kind": "top", "node": top})
    # optionally write one resonance of one amplitude as a separate sub-line (+ a second alternative)
    if dangle and lines and rng.random() < 0.5:
        ln = rng.choice(lines)
        top = ln["node"]
        idx = rng.randrange(len(top.kids))
        r = top.kids[idx]
        def same_decay(q):
            return q.kids is not None and [k.name for k in q.kids] == [k.name for k in r.kids] and all(k.kids is None for k in q.kids) and all(k.kids is None for k in r.kids)

        others = [q for x in lines for q in resonances(x["node"]) if q.name == r.name and q is not r]
        share = bool(others) and all(same_decay(q) for q in others) and rng.random() < 0.7
        if r.kids is not None and not any(x["kind"] == "sub" and x["node"].name == r.name for x in lines) and (not others or share):
            top.kids[idx] = Node(r.name)
            if share:
                # the same partial line referred to from several places (other amplitudes, or twice in one): each use gets the whole sub-line
                def strip(n):
                    if n.kids is None:
                        return
                    for i, k in enumerate(n.kids):
                        if k.name == r.name and k.kids is not None:
                            n.kids[i] = Node(r.name)
                        else:
                            strip(k)

                for x in lines:
                    strip(x["node"])
            lines.append({"kind": "sub", "node": r})
            if rng.random() < 0.5:
                alt = Node(r.name, r.spin, ls_tag(rng, rng.choice(LS_KINDS)), [Node(k.name, k.spin, k.ls, k.kids) for k in r.kids])
                if alt.ls != r.ls:
                    lines.append({"kind": "sub", "node": alt})
    rng.shuffle(lines)
    for ln in lines:
        free = rng.random() < 0.5
        mag = round(rng.uniform(0.1, 2), 5) if rng.random() < 0.85 else rng.choice(["2.5e-09", "1e-300", "7.25e-13", "3.3e-7"])       # also very small couplings
        ln["nums"] = ((0 if free else 2), mag, round(rng.uniform(0.001, 0.1), 5),
                      (0 if free else 2), round(rng.uniform(-3.1, 3.1), 5), round(rng.uniform(0.001, 0.1), 5))
        if ln["kind"] == "top" and rng.random() < 0.12:
            # a component switched off without deleting its line: coupling exactly zero, no uncertainty (it is still an amplitude of the model)
            ln["nums"] = rng.choice([(2, 0, 0, 2, 0, 0), (0, 0, 0, 0, 0, 0), (2, 0, 0, 2, round(rng.uniform(-3.1, 3.1), 3), 0), (2, "0.0", "0.0", 2, "0.0", "0.0")])
            ln["switched_off"] = True
    params, consts = [], []
    allres = [r for ln in lines for r in resonances(ln["node"])]
    for nm in sorted({r.name for r in allres if r.ls == "GSpline.EFF"}):
        n = rng.choice([3, 4, 5, 5, 12, 40, 120])      # the shipped model has 40 bins; three-digit indices as well
        consts += [(f"{nm}::Spline::Min", "0.6"), (f"{nm}::Spline::Max", rng.choice(["3", "1.9"])), (f"{nm}::Spline::N", str(n))]
        order = list(range(n))
        rng.shuffle(order)
        floated = {rng.randrange(n)} if rng.random() < 0.4 else set()       # a member of the family floated in the fit (flag 0, with an error)
        params += [(f"{nm}::Spline::Gamma::{i}", 0 if i in floated else 2, repr(round(0.01 * (i + 1) ** 2, 6)), "0.002" if i in floated else "0") for i in order]
    if any(r.ls and r.ls.startswith("kMatrix") for r in allres):
        k = rng.choice([2, 3, 5])
        order = list(range(k))
        rng.shuffle(order)
        ffree = {rng.randrange(k)} if rng.random() < 0.4 else set()
        params += [(f"f_scatt{i}", 0 if i in ffree else 2, repr(round(0.1 + 0.05 * i, 5)), "0.01" if i in ffree else "0") for i in order]
        poles = [(i, nm) for i in (1, 2, 3) for nm in ("pipi", "KK", "4pi", "EtaEta", "EtapEta", "mass")]
        chosen = rng.sample(poles, rng.choice([3, 6, 9]))
        params += [(f"IS_p{i}_{nm}", 2, repr(round(0.1 * i + 0.01 * len(nm), 5)), "0") for i, nm in chosen]
        params += [("s0_prod", 2, "-1", "0"), ("s0_scatt", 2, "-3.92637", "0"), ("sA", 2, "1", "0"), ("sA0", 2, "-0.15", "0")]
    for nm in sorted({r.name for r in allres})[:3]:
        params.append((f"{nm}_mass", rng.choice([0, 2]), repr(round(rng.uniform(700, 1500), 3)), repr(round(rng.uniform(0.1, 3), 4))))
        if rng.random() < 0.5:
            params.append((f"{nm}_width", rng.choice([0, 2]), repr(round(rng.uniform(40, 400), 3)), repr(round(rng.uniform(0.1, 3), 4))))
    params.append(("D0_radius", 2, "0.0037559", "0"))
    params.append(("free_without_error", 0, repr(round(rng.uniform(0.1, 2), 4)), "0"))
    params.append(("fixed_with_error", 2, repr(round(rng.uniform(0.1, 2), 4)), "0.25"))
    if rng.random() < 0.6:
        rng.shuffle(consts)        # Min / Max / N of a spline in any order
    rng.shuffle(params)
    if rng.random() < 0.2:
        # a fit-parameter line written a second time further down (a tuned value appended below the original, word for word or with another value):
        # the file still converts, to both languages alike
        params.append(("free_without_error", 0, repr(round(rng.uniform(0.1, 2), 4)), "0") if rng.random() < 0.5 else ("fixed_with_error", 2, "1.25", "0.25"))
    return {"event": event, "lines": lines, "params": params, "consts": consts, "cartesian": rng.choice([None, None, 0, 1]), "extras": []}


def expand_trees(model):
    """Fully expanded amplitude trees, grouped per written top line (file order); alternatives in file order."""
    subs = order_of_subs(model)

    def expand(n):
        if n.kids is not None:
            return [Node(n.name, n.spin, n.ls, list(combo)) for combo in itertools.product(*[expand(k) for k in n.kids])]
        res = [x for a in subs.get(n.name, []) for x in expand(a)]
        return res if res else [Node(n.name)]

    return [(ln, expand(ln["node"])) for ln in model["lines"] if ln["kind"] == "top"]


def tree_str(n):
    return pname(n.name) + (n.tag() + "{" + ",".join(tree_str(k) for k in n.kids) + "}" if n.kids is not None else "")


def leaves_of(n):
    return [n.name] if n.kids is None else [x for k in n.kids for x in leaves_of(k)]


def brute_permutations(leaves, event_finals):
    """All one-to-one assignments of the amplitude's final-state particles to positions of identical particles of the event type."""
    n = len(event_finals)
    out = []
    for p in itertools.permutations(range(n), len(leaves)):
        if all(event_finals[p[i]] == leaves[i] for i in range(len(leaves))):
            out.append(p)
    return out


def min_L(J, j1, j2):
    return min(abs(J - j1 - j2), abs(J + j1 - j2), abs(J - j1 + j2))


def node_L(n):
    if n.spin:
        return "SPD".index(n.spin)
    return min_L(SPINS[n.name][1], SPINS[n.kids[0].name][1], SPINS[n.kids[1].name][1])


def amplitude_oracle(tree, event, known_spinfactors):
    """What the generated code must contain for one fully expanded amplitude (independent of the generator under test,
    except for the *published* table structure-key -> spin-factor kinds, which is input data)."""
    from particle import Particle  # noqa: PLC0415

    finals = event[1:]
    leaves = leaves_of(tree)
    perms = brute_permutations(leaves, finals)
    a, b = tree.kids
    two_res = a.kids is not None and b.kids is not None and len(a.kids) == 2 and len(b.kids) == 2
    if two_res:
        key = f"Dto{SPINS[a.name][0]}1{SPINS[b.name][0]}2_{SPINS[a.name][0]}1toP1P2_{SPINS[b.name][0]}2toP3P4"
        if tree.spin and tree.spin != "S":
            key += "_" + tree.spin
        vertices = [a, b]
    else:
        x = SPINS[a.name][0] + "1"
        y = SPINS[a.kids[0].name][0] + "2"
        wave = f"{a.spin}wave" if a.spin and a.spin != "S" else ""
        key = f"Dto{x}P1_{x}to{y}P2{wave}_{y}toP3P4"
        vertices = [a, a.kids[0]]
    L = node_L(tree)
    kinds = [e.name for e in known_spinfactors[key]]
    if L == 1:
        kinds.append("FF_12_34_L1" if two_res else "FF_123_4_L1")
    elif L == 2:
        kinds.append("FF_12_34_L2" if two_res else "FF_123_4_L2")
    sf, ls = [], []
    for p in perms:
        for k in kinds:
            sf.append((k, tuple(p)))
        masses = [f"M_{p[0] + 1}{p[1] + 1}", f"M_{p[2] + 1}{p[3] + 1}"] if two_res else [f"M_{p[0] + 1}{p[1] + 1}_{p[2] + 1}", f"M_{p[0] + 1}{p[1] + 1}"]
        for v, mass in zip(vertices, masses):
            par = Particle.from_pdgid(POOL[v.name]).programmatic_name
            kind = "RBW" if not v.ls else v.ls.split(".")[0]
            ls.append({"kind": kind if kind != "GSpline" else "GSpline", "name": v.name, "M": par + "_M", "W": par + "_W", "L": float(node_L(v)), "mass": mass,
                       "tag": v.ls})
    return {"name": tree_str(tree), "key": key, "perms": [tuple(p) for p in perms], "sf": sf, "ls": ls, "n": len(perms), "two_res": two_res, "L": L}


def check_golden_tables():
    """The golden tables of this module against the installed particle data; a mismatch means the harness data is outdated."""
    from particle import Particle  # noqa: PLC0415

    ensure_special_particles()
    bad = []
    for n, (letter, J) in SPINS.items():
        p = Particle.from_pdgid(POOL[n])
        st = p.spin_type.name
        got = st[6].lower() if st in ("PseudoTensor", "PseudoScalar") else st[0]
        if got != letter or p.J != J:
            bad.append((n, letter, J, st, p.J))
        if n not in ("D0",) and "c" in (p.quarks or "").lower():
            bad.append((n, "charm quark content: radius 5.0"))
    return bad


# an option text that switches the cartesian option on and then cannot be read to the end (a decay line names an unknown resonance):
# whatever the library raises for it, a later read of another text must not notice that this one was ever tried
POISON_TEXT = ("EventType D0 K- pi+ pi+ pi-\n"
               "FastCoherentSum::UseCartesian 1\n"
               "D0{K*(892)bar0{K-,pi+},rho(770)0{pi+,pi-}} 0 0.5 0.1 0 0.3 0.1\n"
               "D0{Zork(999)0{K-,pi+},rho(770)0{pi+,pi-}} 0 1 0 0 2 0\n")


# ... and one that the options grammar itself refuses half-way down (a brace is missing), after complete lines, a parameter and a constant
SYNTAX_POISON_TEXT = ("EventType D0 K- pi+ pi+ pi-\n"
                      "FastCoherentSum::UseCartesian 1\n"
                      "D0[D]{K*(892)bar0{K-,pi+},rho(770)0{pi+,pi-}} 0 0.5 0.1 0 0.3 0.1\n"
                      "D0{a(1)(1260)+{rho(770)0{pi+,pi-},pi+},K-} 2 1 0 2 0 0\n"
                      "a(1)(1260)+_mass 2 1.23 0\n"
                      "rho(770)0::Spline::N 4\n"
                      "D0{K(1)(1270)bar-{K*(892)bar0{K-,pi+},pi-,pi+} 0 1 0 0 2 0\n")
POISON_TEXTS = [POISON_TEXT, SYNTAX_POISON_TEXT]


# the charge-conjugate spelling of every pool name (AmpGen style: 'bar' marks the antiparticle of a neutral or strange/charmed state)
MIRROR = {"D0": "Dbar0", "K-": "K+", "K+": "K-", "pi+": "pi-", "pi-": "pi+", "K*(892)bar0": "K*(892)0", "K*(892)0": "K*(892)bar0",
          "K(1)(1270)bar-": "K(1)(1270)+", "K(1)(1270)+": "K(1)(1270)bar-", "K(1)(1400)bar-": "K(1)(1400)+", "K(1460)bar-": "K(1460)+",
          "K(2)*(1430)bar-": "K(2)*(1430)+", "a(1)(1260)+": "a(1)(1260)-", "a(1)(1260)-": "a(1)(1260)+", "K(0)*(1430)bar0": "K(0)*(1430)0"}
POOL.update({"Dbar0": -421, "K(1)(1400)+": 20323, "K(1460)+": 100321, "K(2)*(1430)+": 325, "K(0)*(1430)0": 10311})


def mirror_model(model):
    """The charge-conjugate model: every particle name of the event type and of the decay trees replaced by its conjugate spelling."""
    def node(n):
        return Node(MIRROR.get(n.name, n.name), n.spin, n.ls, None if n.kids is None else [node(k) for k in n.kids])

    out = dict(model)
    out["event"] = [MIRROR.get(x, x) for x in model["event"]]
    out["lines"] = [dict(ln, node=node(ln["node"])) for ln in model["lines"]]
    return out


def mirror_fourbody(model):
    """mirror_model + the parameter / constant rows that are keyed by a resonance name (NAME_mass, NAME::Spline::Min ...)."""
    out = mirror_model(model)

    def rename(nm):
        for k in sorted(MIRROR, key=len, reverse=True):
            if nm.startswith(k + "_") or nm.startswith(k + "::"):
                return MIRROR[k] + nm[len(k):]
        return nm

    out["params"] = [(rename(p[0]), *p[1:]) for p in model["params"]]
    out["consts"] = [(rename(c[0]), *c[1:]) for c in model["consts"]]
    return out
