"""Fresh-interpreter runner for C20: performs a history of read/convert calls in this process and prints one JSON
document with the result of every call.  Started by vmon.props.C20 with a chosen PYTHONHASHSEED."""
from __future__ import annotations

import contextlib
import io
import json
import os
import sys


def canon_read(res):
    lines, pars, consts, states = res
    return {"lines": [[str(ln), repr(ln.amp), repr(ln.err), ln.spinfactor, ln.lineshape, bool(ln.fix)] for ln in lines],
            "parameters": [[str(i), bool(r.fix), float(r.value), float(r.error)] for i, r in pars.iterrows()],
            "constants": [[str(i), float(r.value)] for i, r in consts.iterrows()], "states": [[str(s), repr(s.mass), repr(s.width)] for s in states]}


def main():
    workdir, hist = sys.argv[1], json.loads(sys.argv[2])
    memo = os.environ.get("VMON_C20_MEMO", "1") == "1"
    if memo:
        from vmon import ampgen  # noqa: PLC0415

        ampgen._installed[0] = False
        # memo without the priming read: the library's own one-time loading must happen inside the history
        import decaylanguage.utils.particleutils as PU  # noqa: PLC0415
        from particle import Particle  # noqa: PLC0415

        real = PU.particle_list_from_string_name
        cache = {}

        def cached(name):
            key = (name, len(Particle.all()))
            if key not in cache:
                cache[key] = real(name)
            return list(cache[key])

        PU.particle_list_from_string_name = cached
    from decaylanguage.modeling.ampgen2goofit import ampgen2goofit, ampgen2goofitpy  # noqa: PLC0415
    from decaylanguage.modeling.amplitudechain import AmplitudeChain  # noqa: PLC0415
    from decaylanguage.modeling.goofit import GooFitChain, GooFitPyChain  # noqa: PLC0415

    # The process' standard output is pointed ONCE at a file that stands for the terminal and is never re-bound by this runner afterwards
    # (a per-call redirect_stdout would put sys.stdout back after every call and so repair - and hide - a call that leaves it re-bound):
    # what a call printed is what arrived in that file while the call ran.
    import tempfile  # noqa: PLC0415

    terminal = tempfile.TemporaryFile("w+", encoding="utf-8", dir=workdir)
    json_out = sys.stdout
    sys.stdout = terminal

    class _Seg:
        def __init__(self):
            terminal.flush()
            self.start = terminal.seek(0, os.SEEK_END)

        def getvalue(self):
            with contextlib.suppress(Exception):
                sys.stdout.flush()
            terminal.flush()
            terminal.seek(self.start)
            txt = terminal.read()
            terminal.seek(0, os.SEEK_END)
            return txt

    out = []
    _USER = {}
    for fidx, entry in hist:
        path = os.path.join(workdir, f"pool{fidx}.txt")
        buf = _Seg()
        try:
            with contextlib.nullcontext():
                if entry == "read":
                    r = {"read": canon_read(AmplitudeChain.read_ampgen(path))}
                elif entry == "cpp":
                    r = {"text": ampgen2goofit(path, ret_output=True)}
                elif entry == "py":
                    r = {"text": ampgen2goofitpy(path, ret_output=True)}
                elif entry in ("cpp_print", "py_print"):
                    # the printing form of the converters (what the command line does); the text is what reached stdout
                    (ampgen2goofit if entry == "cpp_print" else ampgen2goofitpy)(path)
                    r = {"text": buf.getvalue()}
                elif entry in ("read_cpp_text", "read_py_text"):
                    # the same reader given the text instead of the file name (the step-wise use of the notebooks)
                    cls_ = GooFitChain if entry == "read_cpp_text" else GooFitPyChain
                    with open(path, encoding="utf-8") as fh:
                        txt = fh.read()
                    lines, states = cls_.read_ampgen(text=txt)
                    r = {"read2": [[str(ln), repr(ln.amp)] for ln in lines], "states": [[str(s), repr(s.mass), repr(s.width)] for s in states],
                         "intro": cls_.make_intro(states), "pars": cls_.make_pars()}
                elif entry in ("read_user_cpp", "read_user_py", "read_user_base"):
                    # a user's own reader class derived from one of the library's ("can be subclassed to provide custom converters")
                    base_ = {"read_user_cpp": GooFitChain, "read_user_py": GooFitPyChain, "read_user_base": AmplitudeChain}[entry]
                    cls_ = _USER.setdefault(entry, type("My" + base_.__name__, (base_,), {"__slots__": ()}))
                    res_ = cls_.read_ampgen(path)
                    lines, states = (res_[0], res_[-1])
                    r = {"read2": [[str(ln), repr(ln.amp)] for ln in lines], "states": [[str(s), repr(s.mass), repr(s.width)] for s in states],
                         "particles": sorted(str(x) for x in cls_.all_particles), "cartesian": bool(cls_.cartesian)}
                    if entry != "read_user_base":
                        r.update({"intro": cls_.make_intro(states), "pars": cls_.make_pars()})
                elif entry == "read_cpp":
                    lines, states = GooFitChain.read_ampgen(path)
                    r = {"read2": [[str(ln), repr(ln.amp)] for ln in lines], "states": [[str(s), repr(s.mass), repr(s.width)] for s in states],
                         "intro": GooFitChain.make_intro(states), "pars": GooFitChain.make_pars()}
                elif entry == "read_py":
                    lines, states = GooFitPyChain.read_ampgen(path)
                    r = {"read2": [[str(ln), repr(ln.amp)] for ln in lines], "states": [[str(s), repr(s.mass), repr(s.width)] for s in states],
                         "intro": GooFitPyChain.make_intro(states), "pars": GooFitPyChain.make_pars()}
                else:
                    r = {"error": "unknown entry " + entry}
        except Exception as e:  # noqa: BLE001
            import traceback  # noqa: PLC0415

            r = {"raised": f"{type(e).__name__}: {e}", "traceback": traceback.format_exc(limit=5)}
        r["stdout"] = "" if entry.endswith("_print") else buf.getvalue()[:2000]      # (for the printing entries stdout *is* the result)
        out.append(r)
    json_out.write(json.dumps(out))
    json_out.flush()


if __name__ == "__main__":
    main()
