"""Single decay chains (type level) and decay-table sets: generators/enumerators and the small
reference functions the monitors compare the real code against.  Everything here is written against
the *definitions* in the property statements, never by calling decaylanguage."""
from __future__ import annotations

import itertools
import math
from collections import Counter

# --------------------------------------------------------------------------------------------------
# name pools

REAL_DECAYING = ["D0", "D*+", "K_S0", "pi0", "B0", "anti-B0", "K*0", "anti-K*0", "rho0", "J/psi", "Upsilon(4S)",
                 "K_1(1270)+", "f'_0", "a_1+", "D_s+", "B_c+", "Lambda_b0", "tau+", "eta'", "phi", "omega", "D*(2007)0",
                 "Xi_cc+", "psi(2S)", "chi_c1", "B_s0", "anti-D0", "K*+", "f_2", "eta"]
REAL_STABLE = ["pi+", "pi-", "K+", "K-", "gamma", "e+", "e-", "mu+", "mu-", "nu_mu", "anti-nu_tau", "p+", "anti-p-",
               "K_L0", "nu_e", "n0"]
ODD_NAMES = ["X(1)~", "q'", "a/b", "Z_c(3900)+sig", "My-D*0", "f'_2(1525)", "K_2*(1430)0", "N(1440)+", "anti-Lambda_c-", "x.y",
             "T*x", "h_b(2P)"]


def name_pool(rng, n):
    """n distinct names for decaying particles, mixing real spellings (parentheses, quotes, signs) and odd labels."""
    pool = REAL_DECAYING + ODD_NAMES
    return rng.sample(pool, n)


# --------------------------------------------------------------------------------------------------
# type-level chains: {"mother": m, "types": {name: [bf, [daughter names...]]}}


def ladder(rng, depth, leaves_per_level=1):
    """A cascade: `depth` decaying particles, each the daughter of the one before (plus plain leaves)."""
    names = name_pool(rng, depth)
    return chain_from_shape(tuple(range(depth - 1)), (0,) + (1,) * (depth - 1), [leaves_per_level] * depth, names, REAL_STABLE,
                            [round(rng.uniform(0.3, 0.95), 4) for _ in range(depth)])


def increasing_trees(n):
    """All parent arrays p[1..n-1] with p[i] < i: every rooted tree shape on n nodes (with repeats of isomorphic ones)."""
    if n == 1:
        yield ()
        return
    for p in itertools.product(*[range(i) for i in range(1, n)]):
        yield p


def chain_from_shape(parents, mults, leafcounts, names, leaves, bfs):
    """Type-level chain for a tree shape.  node i decays to: its children (each `mults[child]` times) + leafcounts[i] leaves."""
    n = len(parents) + 1
    kids = {i: [] for i in range(n)}
    for c, p in enumerate(parents, start=1):
        kids[p].append(c)
    types = {}
    for i in range(n):
        ds = []
        for c in kids[i]:
            ds += [names[c]] * mults[c]
        ds += [leaves[(i + j) % len(leaves)] for j in range(leafcounts[i])]
        types[names[i]] = [bfs[i], ds]
    return {"mother": names[0], "types": types}


def random_chain(rng, n, max_mult=3, names=None, reuse=True, empty=0.0):
    """Random acyclic type-level chain with n decaying types; later types may re-occur under several parents
    (same particle at several depths) and several times in one final state."""
    names = names or name_pool(rng, n)
    stable = rng.sample(REAL_STABLE + ["zz~", "l'", "b(1)"], 5)
    types = {}
    for i in range(n - 1, -1, -1):
        later = names[i + 1:]
        ds = []
        for _ in range(rng.randint(1, 3)):
            x = rng.choice(later) if later and rng.random() < 0.6 else rng.choice(stable)
            ds += [x] * rng.randint(1, max_mult)
        if i >= 1 and rng.random() < empty:
            ds = []         # a decaying particle whose decay mode has no daughters at all (e.g. an invisible decay kept for its branching fraction)
        types[names[i]] = [round(rng.uniform(0.05, 0.95), 4), ds]
    # make every type reachable: chain unreachable ones under a reachable earlier one
    reach = reachable(types, names[0])
    for i in range(1, n):
        if names[i] not in reach:
            parent = rng.choice([x for x in names[:i] if x in reach])
            types[parent][1].append(names[i])
            reach = reachable(types, names[0])
    if not reuse:
        pass
    return {"mother": names[0], "types": {k: types[k] for k in names}}


def reachable(types, m):
    seen, st = [], [m]
    while st:
        t = st.pop()
        if t in seen:
            continue
        seen.append(t)
        st += [d for d in types[t][1] if d in types]
    return seen


def depth_of(types, m, S=()):
    ds = [depth_of(types, d, S) for d in types[m][1] if d in types and d not in S]
    return 1 + max(ds, default=0)


def ref_leaves(types, t, S):
    """Multiset of leaves and product of branching fractions of the decay tree below t (S = kept stable)."""
    c = Counter()
    bf = types[t][0]
    for d in types[t][1]:
        if d in types and d not in S:
            cc, b = ref_leaves(types, d, S)
            c += cc
            bf *= b
        else:
            c[d] += 1
    return c, bf


def ref_tree(types, t, S=()):
    """Canonical tree: (name, sorted tuple of children); child = name or tree."""
    return (t, tuple(sorted((ref_tree(types, d, S) if (d in types and d not in S) else d for d in types[t][1]), key=repr)))


def ref_dict(types, t, fs_orders=None, model="PHSP"):
    """The documented dictionary form of the chain below `t`, written down from the type-level tree (not through the library)."""
    bf, ds = types[t]
    ds = list((fs_orders or {}).get(t, ds))
    return {t: [{"bf": bf, "fs": [ref_dict(types, d, fs_orders, model) if d in types else d for d in ds], "model": model, "model_params": ""}]}


def occurrences(types, m):
    """How often each decaying type occurs in the unfolded tree (for class detection)."""
    occ = Counter()

    def walk(t, mult):
        occ[t] += mult
        for d, k in Counter(types[t][1]).items():
            if d in types:
                walk(d, mult * k)

    walk(m, 1)
    return occ


def depths(types, m):
    out = {}

    def walk(t, d):
        out.setdefault(t, set()).add(d)
        for x in set(types[t][1]):
            if x in types:
                walk(x, d + 1)

    walk(m, 0)
    return out


# --------------------------------------------------------------------------------------------------
# descriptor reader (bracket matching)


def read_descriptor(s, arrow="->", op="(", cl=")", top_arrow=None, top_op="", top_cl=""):
    """Read 'M -> a (B -> c d) e' back into a canonical tree.  Names may contain parentheses themselves
    (balanced); a sub-decay is recognised by `op` immediately followed by a name and the arrow token.
    With user patterns the top level may use another arrow/brackets."""
    top_arrow = top_arrow or arrow
    if top_op:
        if not (s.startswith(top_op) and s.endswith(top_cl)):
            raise ValueError(f"top-level brackets missing in {s!r}")
        s = s[len(top_op): len(s) - len(top_cl)]
    toks = s.split(" ") if s else []
    toks = [t for t in toks]
    if len(toks) < 2 or toks[1] != top_arrow:
        raise ValueError(f"no top-level arrow in {s!r}")
    stack = [[toks[0], []]]
    i = 2
    while i < len(toks):
        t = toks[i]
        if t == "":
            i += 1
            continue
        if t.startswith(op) and i + 1 < len(toks) and toks[i + 1] == arrow:
            stack.append([t[len(op):], []])
            i += 2
            continue
        # closing brackets at the end of the token that are not balanced inside the name
        k = 0
        name = t
        while name.endswith(cl) and _unbalanced(name, op, cl):
            name = name[: -len(cl)]
            k += 1
        if name != "":
            stack[-1][1].append(name)
        for _ in range(k):
            if len(stack) < 2:
                raise ValueError(f"unbalanced closing bracket in {s!r}")
            m, kids = stack.pop()
            stack[-1][1].append((m, tuple(sorted(kids, key=repr))))
        i += 1
    if len(stack) != 1:
        raise ValueError(f"unclosed sub-decay in {s!r}")
    return (stack[0][0], tuple(sorted(stack[0][1], key=repr)))


def _unbalanced(name, op, cl):
    if op == "(" and cl == ")":
        return name.count(")") > name.count("(")
    return True


# --------------------------------------------------------------------------------------------------
# decay-table sets: {"tables": [[mother, [[bf_literal, [daughters], photos, model, [params]] ...]] ...]}


def ref_unfold(T, m, S):
    """T: name -> list of line dicts (bf, fs, model, model_params).  The chain the property describes."""
    out = []
    for d in T[m]:
        fs = []
        for x in d["fs"]:
            if x in S or x not in T:
                fs.append(x)
            else:
                fs.append(ref_unfold(T, x, S))
        out.append({"bf": d["bf"], "fs": fs, "model": d["model"], "model_params": d["model_params"]})
    return {m: out}


def ref_sizes(T, m, memo, S=()):
    """(number of lines in the unfolding, number of complete decay paths) -- independent DP."""
    key = m
    if key in memo:
        return memo[key]
    memo[key] = (math.inf, math.inf)  # cycle guard
    s = 0
    paths = 0
    for d in T[m]:
        s += 1
        prod = 1
        for x in d["fs"]:
            if x in T and x not in S:
                a, b = ref_sizes(T, x, memo, S)
                s += a
                prod *= b if T[x] else 1
        paths += prod
    memo[key] = (s, paths)
    return memo[key]


def ref_paths(T, m, aliases):
    """One canonical tree per way of choosing one line for m and recursively for every daughter with lines."""
    res = []
    name = aliases.get(m, m)
    for d in T[m]:
        opts = []
        for x in d["fs"]:
            if x in T and T[x]:
                opts.append(ref_paths(T, x, aliases))
            else:
                opts.append([x])
        for combo in itertools.product(*opts):
            res.append((name, tuple(sorted(combo, key=repr))))
    return res


def is_acyclic(T):
    state = {}

    def visit(m):
        if state.get(m) == 1:
            return False
        if state.get(m) == 2:
            return True
        state[m] = 1
        for d in T[m]:
            for x in d["fs"]:
                if x in T and not visit(x):
                    return False
        state[m] = 2
        return True

    return all(visit(m) for m in T)
