"""Runtime contracts attached from the harness to the real callables of decaylanguage (icontract).

The conditions are *monitors*: they record what they observed in SINK and return True, so a refuted
post-condition does not abort the workload (or the repository's own test when armed through
vmon.pytest_plugin).  Every condition derives its reference answer from the arguments / the object's
own public state by the small reference functions of vmon.chains -- never from the function it guards.
COUNTS proves the contracts were evaluated (zero evaluations => the run is inconclusive).
"""
from __future__ import annotations

import copy
import math
from collections import Counter

import icontract

from . import chains
from .core import Diverged
from .trace import Budget

SINK: list = []
COUNTS: Counter = Counter()
ARMED: set = set()
_busy = [0]


class ContractBroken(Exception):
    pass


def record(prop, mechanism, message, detail=None):
    SINK.append({"prop": prop, "mechanism": mechanism, "message": message, "detail": detail})


def drain():
    out = list(SINK)
    SINK.clear()
    return out


def _monitor(name):
    """Decorator for condition functions: count, never raise, never re-enter."""

    def deco(fn):
        import functools  # noqa: PLC0415
        import inspect  # noqa: PLC0415

        @functools.wraps(fn)
        def wrapper(*a, **k):
            if _busy[0]:
                return True
            _busy[0] += 1
            try:
                COUNTS[name] += 1
                fn(*a, **k)
            except Diverged:
                raise
            except Exception as e:  # noqa: BLE001  a crashing oracle is a harness problem, reported as such
                record("harness", f"contract-error:{name}", f"{type(e).__name__}: {e}")
            finally:
                _busy[0] -= 1
            return True

        wrapper.__signature__ = inspect.signature(fn)
        return wrapper

    return deco


# --------------------------------------------------------------------------------------------------
# helpers on the public state of DecayChain / DecayMode


def chain_types(chain):
    """{name: [bf, [daughters...]]} from the public attributes of a DecayChain."""
    return {k: [dm.bf, sorted(Counter(dict(dm.daughters)).elements())] for k, dm in chain.decays.items()}


def chain_state(chain):
    return {"mother": chain.mother,
            "decays": {k: (dm.bf, dict(Counter(dict(dm.daughters))), copy.deepcopy(dm.metadata)) for k, dm in chain.decays.items()},
            "order": list(chain.decays)}


def _acyclic(types, m):
    seen, on = set(), set()

    def visit(t):
        if t in on:
            return False
        if t in seen:
            return True
        on.add(t)
        ok = all(visit(d) for d in types[t][1] if d in types)
        on.discard(t)
        seen.add(t)
        return ok

    return m in types and visit(m)


def _meta_equal(a, b):
    def norm(m):
        m = dict(m)
        if m.get("model_params") is None:
            m["model_params"] = ""
        return m

    return norm(a) == norm(b)


# --------------------------------------------------------------------------------------------------
# C12  DecayChain.flatten


def _snap_flatten(self):
    return chain_state(self)


@_monitor("C12.flatten.leaves_and_product")
def flatten_leaves_and_product(self, stable_particles, result, OLD):
    types = {k: [v[0], sorted(Counter(v[1]).elements())] for k, v in OLD.before["decays"].items()}
    m = OLD.before["mother"]
    if isinstance(stable_particles, (str, bytes)) or not _acyclic(types, m):
        COUNTS["C12.flatten.out_of_scope"] += 1
        return
    S = set(stable_particles)
    if m in S:
        COUNTS["C12.flatten.out_of_scope"] += 1
        return
    leaves, bf = chains.ref_leaves(types, m, S)
    top = result.decays.get(result.mother)
    got = Counter({k: v for k, v in dict(top.daughters).items() if v})
    detail = {"types": types, "mother": m, "stable": sorted(S), "got_fs": dict(got), "exp_fs": dict(leaves), "got_bf": top.bf, "exp_bf": bf}
    if result.mother != m or set(result.decays) != {m}:
        record("C12", "flatten:subdecays-left", f"flattened chain still has decays {list(result.decays)}", detail)
    if got != leaves:
        record("C12", "flatten:leaves", f"final state {dict(got)} != leaves {dict(leaves)}", detail)
    if not math.isclose(top.bf, bf, rel_tol=1e-9, abs_tol=1e-290):  # products underflowing into the denormal range lose relative precision
        record("C12", "flatten:bf-product", f"bf {top.bf!r} != product {bf!r}", detail)
    if not _meta_equal(top.metadata, OLD.before["decays"][m][2]):
        record("C12", "flatten:metadata", f"top-level metadata {top.metadata!r} != {OLD.before['decays'][m][2]!r}", detail)


@_monitor("C12.flatten.original_unchanged")
def flatten_original_unchanged(self, OLD):
    now = chain_state(self)
    if now != OLD.before:
        record("C12", "flatten:original-mutated", "flatten() changed the chain it was called on", {"before": repr(OLD.before), "after": repr(now)})


# --------------------------------------------------------------------------------------------------
# C11  to_dict round trips


@_monitor("C11.chain.to_dict.roundtrip")
def chain_to_dict_roundtrip(self, result):
    from decaylanguage.decay.decay import DecayChain  # noqa: PLC0415

    types = chain_types(self)
    if not _acyclic(types, self.mother):
        COUNTS["C11.chain.out_of_scope"] += 1
        return
    reach = chains.reachable(types, self.mother)
    try:
        back = DecayChain.from_dict(copy.deepcopy(result))
    except Diverged:
        raise
    except Exception as e:  # noqa: BLE001
        record("C11", "chain-roundtrip:from_dict-raised", f"from_dict(to_dict()) raised {type(e).__name__}: {e}", {"types": types, "mother": self.mother})
        return
    detail = {"types": types, "mother": self.mother, "dict": repr(result)[:1500]}
    if back.mother != self.mother or set(back.decays) != set(reach):
        record("C11", "chain-roundtrip:particles", f"particles {sorted(back.decays)} != {sorted(reach)}", detail)
        return
    for k in reach:
        a, b = self.decays[k], back.decays[k]
        if a.bf != b.bf or Counter(dict(a.daughters)) != Counter(dict(b.daughters)):
            record("C11", "chain-roundtrip:mode", f"decay of {k} differs after round trip", detail)
        if not _meta_equal(a.metadata, b.metadata):
            record("C11", "chain-roundtrip:metadata", f"metadata of {k}: {b.metadata!r} != {a.metadata!r}", detail)


@_monitor("C11.mode.to_dict.roundtrip")
def mode_to_dict_roundtrip(self, result):
    cls = type(self)
    try:
        back = cls.from_dict(copy.deepcopy(result))
    except Exception as e:  # noqa: BLE001
        record("C11", "mode-roundtrip:from_dict-raised", f"{type(e).__name__}: {e}", {"dict": repr(result)})
        return
    if back.bf != self.bf or Counter(dict(back.daughters)) != Counter(dict(self.daughters)) or not _meta_equal(back.metadata, self.metadata):
        record("C11", "mode-roundtrip:differs", f"{back.to_dict()!r} != {result!r}", {"dict": repr(result)})
    if result.get("fs") != sorted(Counter(dict(self.daughters)).elements()):
        record("C11", "mode-to_dict:fs-not-canonical", f"fs {result.get('fs')!r} is not the sorted multiset", {"dict": repr(result)})


# --------------------------------------------------------------------------------------------------
# C13  to_string


def _name_ok(n):
    return " " not in n and n.count("(") == n.count(")") and n != ""


@_monitor("C13.to_string.reads_back")
def descriptor_reads_back(self, result):
    from decaylanguage.utils import DescriptorFormat  # noqa: PLC0415

    if DescriptorFormat.config != {"decay_pattern": "{mother} -> {daughters}", "sub_decay_pattern": "({mother} -> {daughters})"}:
        COUNTS["C13.to_string.nondefault_format"] += 1
        return
    types = chain_types(self)
    names = set(types) | {d for v in types.values() for d in v[1]}
    if not _acyclic(types, self.mother) or not all(_name_ok(n) and n != "->" for n in names):
        COUNTS["C13.to_string.out_of_scope"] += 1
        return
    exp = chains.ref_tree(types, self.mother)
    detail = {"types": types, "mother": self.mother, "descriptor": result}
    try:
        got = chains.read_descriptor(result)
    except ValueError as e:
        record("C13", "descriptor:unreadable", str(e), detail)
        return
    if got != exp:
        record("C13", "descriptor:tree-differs", f"{result!r} reads back as {got!r}, expected {exp!r}", detail)


# --------------------------------------------------------------------------------------------------
# C04  conjugation


@_monitor("C04.name.matches_table_oracle")
def conj_matches_table_oracle(name, pdg_name, result):
    from . import names  # noqa: PLC0415

    if not isinstance(name, str):
        return
    exp = names.conj_pdg(name) if pdg_name else names.conj(name)
    if exp is None:
        COUNTS["C04.name.table_ambiguous"] += 1
        return
    if result != exp:
        record("C04", "conj-name:" + ("pdg" if pdg_name else "evtgen") + ":" + names.kind(name if not pdg_name else names.tables()["pdg2evt"].get(name, "")),
               f"charge_conjugate_name({name!r}, pdg_name={pdg_name}) = {result!r}, table oracle says {exp!r}", {"name": name, "pdg_name": pdg_name})


@_monitor("C04.name.involution_or_wrapped")
def conj_is_involution_or_wrapped(name, pdg_name, result):
    if not isinstance(name, str):
        return
    if result == f"ChargeConj({name})":
        return
    back = _REAL["charge_conjugate_name"](result, pdg_name)
    if back != name:
        record("C04", "conj-name:not-involution", f"conj(conj({name!r})) = {back!r} (via {result!r}, pdg_name={pdg_name})", {"name": name, "pdg_name": pdg_name})


@_monitor("C04.daughters.each_particle_with_multiplicity")
def daughters_conjugated(self, pdg_name, result):
    from . import names  # noqa: PLC0415

    src = Counter({k: v for k, v in dict(self).items() if v > 0})
    got = Counter({k: v for k, v in dict(result).items() if v > 0})
    detail = {"daughters": dict(src), "pdg_name": pdg_name, "got": dict(got)}
    if sum(got.values()) != sum(src.values()):
        record("C04", "conj-daughters:size", f"{sum(src.values())} particles became {sum(got.values())}", detail)
    exp = Counter()
    for k, v in src.items():
        c = names.conj_pdg(k) if pdg_name else names.conj(k)
        if c is None:
            COUNTS["C04.daughters.table_ambiguous"] += 1
            return
        exp[c] += v
    if got != exp:
        record("C04", "conj-daughters:content", f"conjugate of {dict(src)} is {dict(got)}, expected {dict(exp)}", detail)
    if type(result) is not type(self):
        record("C04", "conj-daughters:type", f"result type {type(result).__name__}", detail)


def _snap_mode(self):
    return (self.bf, dict(self.daughters), copy.deepcopy(self.metadata))


@_monitor("C04.mode.bf_and_metadata_kept")
def mode_conj_keeps_bf_and_metadata(self, pdg_name, result, OLD):
    bf, ds, meta = OLD.before
    detail = {"bf": bf, "daughters": ds, "metadata": repr(meta), "pdg_name": pdg_name}
    if result.bf != bf:
        record("C04", "conj-mode:bf", f"bf {bf!r} became {result.bf!r}", detail)
    if result.metadata != meta:
        record("C04", "conj-mode:metadata", f"metadata {meta!r} became {result.metadata!r}", detail)
    if len(result) != sum(v for v in ds.values() if v > 0):
        record("C04", "conj-mode:size", f"{sum(ds.values())} particles became {len(result)}", detail)
    if (self.bf, dict(self.daughters), self.metadata) != OLD.before:
        record("C04", "conj-mode:original-mutated", "charge_conjugate() changed the mode it was called on", detail)


# --------------------------------------------------------------------------------------------------
# C01 / C03 / C05 / C07  DecFileParser.parse: the independent reference reader on the parser's own text

_USER_MODELS: dict = {}


def _source_text(p):
    """The text the parser object holds (the private attribute _dec_file; after a renaming: the one string-valued
    attribute of the object that is not the Lark grammar)."""
    text = getattr(p, "_dec_file", None)
    if isinstance(text, str):
        return text
    cand = []
    names = [n for k in type(p).__mro__ for n in getattr(k, "__slots__", ())] + list(getattr(p, "__dict__", {}))
    for n in names:
        try:
            v = getattr(p, n)
        except AttributeError:
            continue
        if isinstance(v, str) and "%import" not in v and "start:" not in v and "?line" not in v:
            cand.append(v)
    return cand[0] if len(cand) == 1 else None


@_monitor("C01.parse.tables_match_reference")
def parse_matches_reference(self, include_ccdecays):
    from . import declang as L  # noqa: PLC0415
    from . import snapshot  # noqa: PLC0415

    text = _source_text(self)
    if not isinstance(text, str):
        COUNTS["C01.parse.not_observed"] += 1
        return
    um = tuple(_USER_MODELS.get(id(self), ()))
    try:
        stmts = L.read(text if text.endswith("\n") else text + "\n", L.published_models(), um)
    except L.Unsupported:
        COUNTS["C01.parse.reference_reader_unsupported"] += 1
        return
    exp = L.expected(stmts, include_cc=bool(include_ccdecays))
    names = [s["name"] for s in stmts if s["k"] == "CDecay"]
    if len(names) != len(set(names)) or len({s["a"] for s in stmts if s["k"] == "CopyDecay"} & set(exp["tables"])):
        COUNTS["C01.parse.out_of_scope"] += 1      # several CDecay of one name / CopyDecay onto an existing table
        return
    detail = {"files": getattr(self, "_dec_file_names", None), "include_ccdecays": bool(include_ccdecays)}
    for mech, msg in snapshot.compare_tables(self, exp):
        prop = "C03" if ":derived" in mech and any(s["k"] == "CDecay" for s in stmts) else "C01"
        record(prop, "parse-contract:" + mech, msg, detail)
    for mech, msg in snapshot.compare_globals(self, exp):
        record("C07", "parse-contract:" + mech, msg, detail)


# --------------------------------------------------------------------------------------------------
# C09 / C10  chains and expansion of a DecFileParser (reference = unfolding of the parser's own flat tables)


def parser_tables(p):
    """{mother: [line dict]} from the flat per-line queries (no PHOTOS keyword, '' == [])."""
    key = (id(p), id(getattr(p, "_parsed_decays", None)), len(getattr(p, "_parsed_decays", None) or ()))
    if _TCACHE.get("key") == key:
        return _TCACHE["T"]
    T = {}
    for m in p.list_decay_mother_names():
        if m in T:
            continue
        from . import snapshot  # noqa: PLC0415

        T[m] = [{"bf": r[0], "fs": list(r[1]), "model": r[2], "model_params": list(r[3])} for r in snapshot.tables_of_mother(p, m)]
    _TCACHE["key"], _TCACHE["T"] = key, T
    return T


_TCACHE: dict = {}


def _norm_chain(c):
    (m, modes), = c.items()
    out = []
    for d in modes:
        mp = d.get("model_params")
        out.append({"bf": d.get("bf"), "fs": [(_norm_chain(x) if isinstance(x, dict) else x) for x in d.get("fs", [])], "model": d.get("model"),
                    "model_params": [] if mp in ("", None) else list(mp)})
    return {m: out}


def _reach_acyclic(T, m, S=()):
    on, done = set(), set()

    def visit(x):
        if x in on:
            return False
        if x in done:
            return True
        on.add(x)
        ok = all(visit(d) for ln in T[x] for d in ln["fs"] if d in T and d not in S)
        on.discard(x)
        done.add(x)
        return ok

    return visit(m)


_depth = {"chains": 0}


@_monitor("C09.build_decay_chains.is_unfolding")
def chain_is_unfolding(self, mother, stable_particles, result):
    T = parser_tables(self)
    if mother not in T or isinstance(stable_particles, (str, bytes)):
        return
    S = set(stable_particles)
    if not _reach_acyclic(T, mother, S):
        COUNTS["C09.out_of_scope_cyclic"] += 1
        return
    exp = chains.ref_unfold(T, mother, S)
    if _norm_chain(result) != _norm_chain(exp):
        record("C09", "chain:not-the-unfolding", f"build_decay_chains({mother!r}, {sorted(S)!r}) differs from the recursive unfolding of the tables",
               {"mother": mother, "stable": sorted(S), "got": repr(result)[:1500], "expected": repr(exp)[:1500]})


@_monitor("C10.expand.count_and_paths")
def expansion_is_paths(self, particle, result):
    T = parser_tables(self)
    if particle not in T or not _reach_acyclic(T, particle):
        return
    from decaylanguage.utils import DescriptorFormat  # noqa: PLC0415

    memo = {}
    _, count = chains.ref_sizes(T, particle, memo)
    detail = {"mother": particle, "n_got": len(result), "n_expected": count}
    if len(result) != count:
        record("C10", "expand:count", f"{len(result)} descriptors for {particle!r}, sum-of-products says {count}", detail)
        return
    if count > 20000 or DescriptorFormat.config != {"decay_pattern": "{mother} -> {daughters}", "sub_decay_pattern": "({mother} -> {daughters})"}:
        COUNTS["C10.expand.paths_not_compared"] += 1
        return
    allnames = set(T) | {d for rows in T.values() for ln in rows for d in ln["fs"]}
    if not all(_name_ok(n) and n != "->" for n in allnames):
        COUNTS["C10.expand.paths_not_compared"] += 1
        return
    al = self.dict_aliases()
    exp = Counter(chains.ref_paths(T, particle, al))
    try:
        got = Counter(chains.read_descriptor(s) for s in result)
    except ValueError as e:
        record("C10", "expand:unreadable-descriptor", str(e), detail)
        return
    if got != exp:
        miss = list((exp - got).items())[:2]
        extra = list((got - exp).items())[:2]
        record("C10", "expand:paths-differ", f"descriptors are not the decay paths: missing {miss!r}, unexpected {extra!r}", detail)


# --------------------------------------------------------------------------------------------------
# C18  ModelDecay.list_structure


@_monitor("C18.list_structure.equals_bruteforce")
def structure_equals_bruteforce(self, final_states, result):
    import itertools  # noqa: PLC0415

    def leaves(n):
        return [n.particle] if not n.daughters else [x for d in n.daughters for x in leaves(d)]

    lv = leaves(self)
    fs = list(final_states)
    if len(fs) > 6 or len(lv) > 6:
        COUNTS["C18.list_structure.too_large"] += 1
        return
    exp = [p for p in itertools.permutations(range(len(fs)), len(lv)) if all(fs[p[i]] == lv[i] for i in range(len(lv)))]
    got = [tuple(x) for x in result]
    if sorted(got) != sorted(exp) or len(got) != len(set(got)):
        record("C18", "permutations:contract:not-the-one-to-one-assignments", f"list_structure gives {sorted(got)[:6]} ({len(got)}), brute force {sorted(exp)[:6]} ({len(exp)})",
               {"leaves": [str(x) for x in lv], "final_states": [str(x) for x in fs]})


# --------------------------------------------------------------------------------------------------
# C14  DescriptorFormat scoping: shadow stack keyed by context-object identity

SHADOW: dict = {}
INIT_ARGS: dict = {}     # id(DescriptorFormat object) -> the two patterns its constructor was given (recorded at the boundary)


def _record_init(real):
    import functools  # noqa: PLC0415
    import inspect  # noqa: PLC0415

    sig = inspect.signature(real)

    @functools.wraps(real)
    def __init__(self, *a, **k):
        real(self, *a, **k)
        b = sig.bind(self, *a, **k)
        INIT_ARGS[id(self)] = {"decay_pattern": b.arguments.get("decay_pattern"), "sub_decay_pattern": b.arguments.get("sub_decay_pattern")}

    return __init__


def _snap_cfg(self):
    from decaylanguage.utils import DescriptorFormat  # noqa: PLC0415

    return dict(DescriptorFormat.config)


@_monitor("C14.enter.installs_and_remembers")
def enter_installs(self, OLD):
    from decaylanguage.utils import DescriptorFormat  # noqa: PLC0415

    SHADOW.setdefault(id(self), []).append(OLD.cfg)
    want = INIT_ARGS.get(id(self))
    if want is None:
        COUNTS["C14.enter.constructor_not_observed"] += 1
        return
    if dict(DescriptorFormat.config) != want:
        record("C14", "enter:format-not-installed", f"after __enter__ the format is {DescriptorFormat.config!r}, not {want!r}", None)


@_monitor("C14.exit.restores_entry_format")
def exit_restores(self):
    from decaylanguage.utils import DescriptorFormat  # noqa: PLC0415

    st = SHADOW.get(id(self))
    if not st:
        COUNTS["C14.exit.without_enter"] += 1
        return
    exp = st.pop()
    if DescriptorFormat.config != exp:
        record("C14", "exit:entry-format-not-restored", f"after __exit__ the format is {DescriptorFormat.config!r}; at entry it was {exp!r}", None)


def _set_config_guard(real):
    """A rejected pattern must leave the format unchanged (icontract does not look at state after a raise)."""
    import functools  # noqa: PLC0415

    @functools.wraps(real)
    def set_config(*args, **kw):
        from decaylanguage.utils import DescriptorFormat  # noqa: PLC0415

        before = dict(DescriptorFormat.config)
        COUNTS["C14.set_config.rejected_leaves_format"] += 1
        try:
            return real(*args, **kw)
        except BaseException:
            if DescriptorFormat.config != before:
                record("C14", "set_config:rejected-pattern-changed-format", f"format {before!r} became {DescriptorFormat.config!r} although set_config raised", None)
            raise

    return set_config


_REAL: dict = {}


def rebind_everywhere(orig, new):
    """`from m import f` bindings bypass a re-bound attribute: patch every decaylanguage module attribute that *is* orig."""
    import sys  # noqa: PLC0415

    n = 0
    for mname, mod in list(sys.modules.items()):
        if mod is None or not (mname == "decaylanguage" or mname.startswith("decaylanguage.")):
            continue
        for attr, val in list(vars(mod).items()):
            if val is orig:
                setattr(mod, attr, new)
                n += 1
    return n


# --------------------------------------------------------------------------------------------------
# arming


def _public_calls_only(raw, contracted):
    """A call that passes private arguments (keywords starting with '_': the library's own internal call forms, free to mean and
    to return anything) goes to the real callable unjudged; the contracts speak about the public call forms only."""
    import functools  # noqa: PLC0415

    @functools.wraps(raw)
    def call(*a, **k):
        if any(isinstance(x, str) and x.startswith("_") for x in k):
            COUNTS["private_call_form_not_judged"] += 1
            return raw(*a, **k)
        return contracted(*a, **k)

    return call


def _budgeted(fn, size_of, specs):
    """Run the real function under a LINE-event budget that is a generous function of the input size."""
    bud = Budget.get()
    bud.watch(*specs)
    import functools  # noqa: PLC0415

    @functools.wraps(fn)
    def wrapper(*a, **k):
        if bud.limit is not None:  # nested call: the outer budget is already counting
            return fn(*a, **k)
        return bud.run(200 * (size_of(*a, **k) + 10), fn, *a, **k)

    return wrapper


def _chain_size(self, *a, **k):
    return sum(len(dm.daughters) + 1 for dm in self.decays.values())


def arm(*groups):
    """Attach the contracts of the named groups to the real callables (idempotent)."""
    import decaylanguage.decay.decay as Y  # noqa: PLC0415

    for g in groups:
        if g in ARMED:
            continue
        ARMED.add(g)
        if g == "flatten":
            f = _budgeted(Y.DecayChain.flatten, _flatten_size, ["decaylanguage.decay.decay:DecayChain.flatten"])
            f = icontract.ensure(flatten_original_unchanged, error=ContractBroken)(f)
            f = icontract.ensure(flatten_leaves_and_product, error=ContractBroken)(f)
            f = icontract.snapshot(_snap_flatten, name="before")(f)
            Y.DecayChain.flatten = _public_calls_only(Y.DecayChain.flatten, f)
        elif g == "chain_to_dict":
            f = _budgeted(Y.DecayChain.to_dict, _chain_size_unfolded, ["decaylanguage.decay.decay:DecayChain.to_dict"])
            Y.DecayChain.to_dict = _public_calls_only(Y.DecayChain.to_dict, icontract.ensure(chain_to_dict_roundtrip, error=ContractBroken)(f))
        elif g == "mode_to_dict":
            Y.DecayMode.to_dict = _public_calls_only(Y.DecayMode.to_dict, icontract.ensure(mode_to_dict_roundtrip, error=ContractBroken)(Y.DecayMode.to_dict))
        elif g == "to_string":
            Y.DecayChain.to_string = _public_calls_only(Y.DecayChain.to_string, icontract.ensure(descriptor_reads_back, error=ContractBroken)(Y.DecayChain.to_string))
        elif g == "conj":
            import decaylanguage.dec.dec  # noqa: F401, PLC0415
            import decaylanguage.utils.particleutils as PU  # noqa: PLC0415

            orig = PU.charge_conjugate_name
            _REAL["charge_conjugate_name"] = orig
            f = icontract.ensure(conj_is_involution_or_wrapped, error=ContractBroken)(orig)
            f = icontract.ensure(conj_matches_table_oracle, error=ContractBroken)(f)
            for attr in ("cache_clear", "cache_info"):
                if hasattr(orig, attr):
                    setattr(f, attr, getattr(orig, attr))
            COUNTS["C04.rebound_sites"] = rebind_everywhere(orig, f)
            Y.DaughtersDict.charge_conjugate = _public_calls_only(Y.DaughtersDict.charge_conjugate,
                                                                  icontract.ensure(daughters_conjugated, error=ContractBroken)(Y.DaughtersDict.charge_conjugate))
            g2 = icontract.ensure(mode_conj_keeps_bf_and_metadata, error=ContractBroken)(Y.DecayMode.charge_conjugate)
            Y.DecayMode.charge_conjugate = _public_calls_only(Y.DecayMode.charge_conjugate, icontract.snapshot(_snap_mode, name="before")(g2))
        elif g == "parse":
            import decaylanguage.dec.dec as D  # noqa: PLC0415
            import functools  # noqa: PLC0415

            real_load = D.DecFileParser.load_additional_decay_models

            @functools.wraps(real_load)
            def load_additional_decay_models(self, *models, **kw):
                _USER_MODELS.setdefault(id(self), []).extend(models)
                return real_load(self, *models, **kw)

            D.DecFileParser.load_additional_decay_models = load_additional_decay_models
            D.DecFileParser.parse = _public_calls_only(D.DecFileParser.parse, icontract.ensure(parse_matches_reference, error=ContractBroken)(D.DecFileParser.parse))
        elif g == "parser_chains":
            import decaylanguage.dec.dec as D  # noqa: PLC0415

            real_build = D.DecFileParser.build_decay_chains
            checked = icontract.ensure(chain_is_unfolding, error=ContractBroken)(real_build)
            bud = Budget.get()
            bud.watch("decaylanguage.dec.dec:DecFileParser.build_decay_chains")
            import functools  # noqa: PLC0415

            @functools.wraps(real_build)
            def build_decay_chains(self, mother, stable_particles=(), *more, **kw):
                # the contract is evaluated for top-level calls only (the function recurses through self.build_decay_chains);
                # whatever further (private) arguments the recursion passes along are handed through untouched
                if _depth["chains"] or more or kw:
                    return real_build(self, mother, stable_particles, *more, **kw)
                _depth["chains"] += 1
                try:
                    if bud.limit is None:
                        try:
                            T = parser_tables(self)
                            size = chains.ref_sizes(T, mother, {}, set(stable_particles) if not isinstance(stable_particles, str) else ())[0] if mother in T and _reach_acyclic(T, mother, set(stable_particles)) else 1000
                        except Exception:  # noqa: BLE001
                            size = 1000
                        size = size if size == size and size != float("inf") else 1000
                        return bud.run(int(300 * (size + 20)), checked, self, mother, stable_particles)
                    return checked(self, mother, stable_particles)
                finally:
                    _depth["chains"] -= 1

            D.DecFileParser.build_decay_chains = build_decay_chains
            def _expand_size(self, particle):
                try:
                    T = parser_tables(self)
                    if particle in T and _reach_acyclic(T, particle):
                        lines, paths = chains.ref_sizes(T, particle, {})
                        # every sub-table is expanded once per occurrence: bounded by (lines + paths) * a few line events
                        return int(min(lines * 4 + paths * 6, 5_000_000))
                except Exception:  # noqa: BLE001
                    pass
                return 100_000

            real_expand = _budgeted(D.DecFileParser.expand_decay_modes, _expand_size, ["decaylanguage.decay.decay:_expand_decay_modes"])
            D.DecFileParser.expand_decay_modes = _public_calls_only(D.DecFileParser.expand_decay_modes, icontract.ensure(expansion_is_paths, error=ContractBroken)(real_expand))
        elif g == "list_structure":
            import decaylanguage.modeling.decay as MD  # noqa: PLC0415

            f = _budgeted(MD.ModelDecay.list_structure, lambda self, final_states: 40 + 5 ** min(len(final_states), 5), ["decaylanguage.modeling.decay:ModelDecay.list_structure"])
            MD.ModelDecay.list_structure = _public_calls_only(MD.ModelDecay.list_structure, icontract.ensure(structure_equals_bruteforce, error=ContractBroken)(f))
        elif g == "descriptor_format":
            import decaylanguage.utils.utilities as UU  # noqa: PLC0415

            DF = UU.DescriptorFormat
            DF.__init__ = _record_init(DF.__init__)
            f = icontract.ensure(enter_installs, error=ContractBroken)(DF.__enter__)
            DF.__enter__ = icontract.snapshot(_snap_cfg, name="cfg")(f)
            DF.__exit__ = icontract.ensure(exit_restores, error=ContractBroken)(DF.__exit__)
            DF.set_config = staticmethod(_set_config_guard(DF.set_config))
        else:
            raise KeyError(g)


def _flatten_size(self, *a, **k):
    return _chain_size_unfolded(self) + len(self.decays) ** 2


def _chain_size_unfolded(self, *a, **k):
    types = chain_types(self)
    if not _acyclic(types, self.mother):
        return 10_000
    memo = {}

    def size(t):
        if t not in memo:
            memo[t] = 1 + len(types[t][1]) + sum(size(d) for d in types[t][1] if d in types)
        return memo[t]

    return min(size(self.mother), 10_000_000)
