"""vmon.core -- environment bootstrap, worker orchestration, verdicts, evidence, replay, known findings.

Every check is `./check <id> --tier quick|thorough`.  The parent process spawns N worker
subprocesses (`--worker i/N`), each of which imports the property module `vmon.props.<id>`, runs its
workload against the *real* code of the repository (found under $VERIF_REPO, default /repo) with the
monitors armed, and writes a partial result (counters, class hits, samples, violations) as JSON.
The parent merges the partial results, decides the three-valued verdict and rewrites the evidence file.
"""
from __future__ import annotations

import fcntl
import hashlib
import importlib
import json
import os
import random
import shutil
import subprocess
import sys
import time
import traceback
from collections import Counter

VERIF = os.path.dirname(os.path.dirname(os.path.abspath(__file__)))
REPO = os.path.abspath(os.environ.get("VERIF_REPO", "/repo"))
DEPS = os.path.join(VERIF, ".deps")
WORK = os.path.join(VERIF, ".work")
REPLAYS = os.path.join(VERIF, "replays")
EVIDENCE = os.path.join(VERIF, "evidence")
KNOWN_FILE = os.path.join(VERIF, "KNOWN_FINDINGS.txt")
WHEELS = "/opt/veriftools/wheels"

ALL_IDS = [f"C{i:02d}" for i in range(1, 21)]


class Inconclusive(Exception):
    pass


class Diverged(Exception):
    """Raised inside code under test when a logical step budget is exhausted (see trace.Budget)."""


# --------------------------------------------------------------------------------------------------
# environment


def ensure_deps() -> None:
    """icontract / deal beside the repository's interpreter, offline, idempotent, under a file lock."""
    os.makedirs(WORK, exist_ok=True)
    marker = os.path.join(DEPS, ".ok")
    if not os.path.exists(marker):
        with open(os.path.join(WORK, "deps.lock"), "w") as lock:
            fcntl.flock(lock, fcntl.LOCK_EX)
            if not os.path.exists(marker):
                cmd = [sys.executable, "-m", "pip", "install", "-q", "--no-index", "--find-links", WHEELS,
                       "--target", DEPS, "icontract", "deal"]
                r = subprocess.run(cmd, capture_output=True, text=True, timeout=600)
                if r.returncode != 0:
                    raise Inconclusive("pip install of icontract/deal failed: " + r.stderr[-400:])
                with open(marker, "w") as f:
                    f.write("ok\n")
    if DEPS not in sys.path:
        sys.path.insert(0, DEPS)


def bootstrap_repo() -> None:
    """Put <repo>/src first on sys.path and make sure that is the decaylanguage we import."""
    src = os.path.join(REPO, "src")
    if not os.path.isdir(os.path.join(src, "decaylanguage")):
        raise Inconclusive(f"no decaylanguage sources under {src}")
    if sys.path[0] != src:
        sys.path.insert(0, src)
    import decaylanguage  # noqa: PLC0415

    where = os.path.abspath(decaylanguage.__file__)
    if not where.startswith(src + os.sep):
        raise Inconclusive(f"decaylanguage imported from {where}, not from {src}")


# Environment profiles: the answers the properties speak of may depend on the input (and, where stated, the call history) only -- never on the
# locale / default text encoding, `python -O`, the warning filters, the working directory, the time zone or on what was imported before the
# library.  Worker i of a run executes its share of the workload under profile i % len(ENV_PROFILES); the monitors are the same in all of them.
ENV_PROFILES = [
    ("default", [], {}),
    ("c-locale", [], {"LC_ALL": "C", "LANG": "C", "LANGUAGE": "C", "PYTHONUTF8": "0", "PYTHONCOERCECLOCALE": "0", "PYTHONIOENCODING": ""}),
    ("optimised-warnings-ignored", ["-O"], {"PYTHONWARNINGS": "ignore"}),
    ("elsewhere", [], {"VMON_CHDIR": "1", "VMON_PREIMPORT": "json,decimal,numpy,pandas,graphviz,particle,lark", "TZ": "Pacific/Kiritimati", "COLUMNS": "60", "LINES": "20"}),
]


def poke(obj, rng, k: int = 3) -> list:
    """Things a user does with a library object in passing -- hash it, compare it, print it, copy it, pickle it, measure it.  None of them may
    change a later answer.  Whether each of them *works* is not what any property is about, so their own exceptions are swallowed; the names of the
    operations performed are returned for the witness."""
    import copy  # noqa: PLC0415
    import pickle  # noqa: PLC0415

    ops = {
        "hash": lambda o: hash(o), "eq-self": lambda o: o == o, "ne-other": lambda o: o != object(), "in-list": lambda o: o in [None, o],
        "in-set": lambda o: o in {o}, "dict-key": lambda o: {o: 1}[o], "repr": lambda o: repr(o), "str": lambda o: str(o), "bool": lambda o: bool(o), "len": lambda o: len(o),
        "iter": lambda o: list(iter(o)), "copy": lambda o: copy.copy(o), "deepcopy": lambda o: copy.deepcopy(o),
        "pickle": lambda o: pickle.loads(pickle.dumps(o)), "dir": lambda o: [getattr(o, a, None) for a in dir(o) if not a.startswith("_") and not callable(getattr(type(o), a, None))],
        "format": lambda o: f"{o}", "sorted-with-peers": lambda o: sorted([o, o], key=repr),
    }
    done = []
    for name in rng.sample(sorted(ops), min(k, len(ops))):
        try:
            ops[name](obj)
        except BaseException as e:  # noqa: BLE001
            if isinstance(e, (KeyboardInterrupt, SystemExit)) or type(e).__name__ == "Diverged":
                raise
        done.append(name)
    return done


def child_env() -> dict:
    env = dict(os.environ)
    env["PYTHONDONTWRITEBYTECODE"] = "1"
    env.setdefault("PYTHONHASHSEED", "0")
    pp = [os.path.join(REPO, "src"), VERIF, DEPS]
    env["PYTHONPATH"] = os.pathsep.join(pp)
    env["VERIF_REPO"] = REPO
    env["PIP_NO_INDEX"] = "1"
    return env


# --------------------------------------------------------------------------------------------------
# known findings


def load_known() -> dict:
    known = {}
    if os.path.exists(KNOWN_FILE):
        with open(KNOWN_FILE, encoding="utf-8") as f:
            lines = f.read().splitlines()
        for line in lines:
            line = line.strip()
            if not line.startswith("known:"):
                continue
            parts = line[len("known:"):].split()
            d = dict(p.split("=", 1) for p in parts[:2] if "=" in p)
            if "property" in d and "mechanism" in d:
                known[(d["property"], d["mechanism"])] = " ".join(parts[2:])
    return known


# --------------------------------------------------------------------------------------------------
# per-worker context


def chash(obj) -> str:
    return hashlib.blake2b(json.dumps(obj, sort_keys=True, default=repr).encode(), digest_size=8).hexdigest()


class Ctx:
    """What a property module sees: seeded RNG, counters, class quotas, violation sink."""

    def __init__(self, pid: str, tier: str, seed: int, shard: int, nshards: int, replaying: bool = False):
        self.pid, self.tier, self.seed, self.shard, self.nshards = pid, tier, seed, shard, nshards
        self.rng = random.Random(f"{pid}:{seed}:{shard}")
        self.evaluations = 0
        self.cases: set = set()
        self.nontrivial: set = set()
        self.classes: Counter = Counter()
        self.monitors: Counter = Counter()
        self.firings: Counter = Counter()
        self.samples: list = []
        self.violations: list = []
        self.notes: dict = {}
        self.workloads: Counter = Counter()
        self.inconclusive: list = []
        self.replaying = replaying
        self.t0 = time.time()
        self.max_violations = 25

    @property
    def quick(self) -> bool:
        return self.tier == "quick"

    def pick(self, quick, thorough):
        return quick if self.tier == "quick" else thorough

    def share(self, total: int) -> range:
        """Indices of an enumerated space of `total` items handled by this shard."""
        return range(self.shard, total, self.nshards)

    def mine(self, index: int) -> bool:
        return index % self.nshards == self.shard

    def case(self, obj, nontrivial: bool = True, workload: str = "gen") -> str:
        """Register one monitored execution.  `obj` is the canonical JSON-able case."""
        h = obj if isinstance(obj, str) and len(obj) == 16 else chash(obj)
        self.evaluations += 1
        self.cases.add(h)
        if nontrivial:
            self.nontrivial.add(h)
        self.workloads[workload] += 1
        return h

    def hit(self, cls: str, n: int = 1) -> None:
        self.classes[cls] += n

    def mon(self, name: str, n: int = 1) -> None:
        self.monitors[name] += n

    def sample(self, obj, limit: int = 4) -> None:
        if len(self.samples) < limit:
            self.samples.append(obj)

    def note(self, key: str, value) -> None:
        self.notes[key] = value

    def violate(self, mechanism: str, message: str, witness: dict) -> None:
        """A monitor observed a refuting execution.  `mechanism` is the classifier key used by
        KNOWN_FINDINGS.txt (never a case hash); `witness` must allow replay (carry a 'kind')."""
        self.firings[mechanism] += 1
        if len(self.violations) >= self.max_violations:
            return
        self.violations.append({"mechanism": mechanism, "message": message[:2000], "witness": witness})

    def guard(self, mechanism: str, witness: dict, fn, *args, **kw):
        """Run fn; an exception escaping the code under test on an in-scope input is a violation."""
        try:
            return True, fn(*args, **kw)
        except Diverged as e:
            self.violate(mechanism + ":diverged", f"step budget exhausted: {e}", witness)
        except Inconclusive:
            raise
        except Exception as e:  # noqa: BLE001
            tb = traceback.format_exc(limit=6)
            self.violate(mechanism + ":raised:" + type(e).__name__, f"{type(e).__name__}: {e}\n{tb}", witness)
        return False, None

    def dump(self) -> dict:
        return {
            "evaluations": self.evaluations,
            "cases": sorted(self.cases),
            "nontrivial": sorted(self.nontrivial),
            "classes": dict(self.classes),
            "monitors": dict(self.monitors),
            "firings": dict(self.firings),
            "samples": self.samples,
            "violations": self.violations,
            "notes": self.notes,
            "workloads": dict(self.workloads),
            "inconclusive": self.inconclusive,
            "wall_s": round(time.time() - self.t0, 2),
        }


# --------------------------------------------------------------------------------------------------
# worker


def run_worker(pid: str, tier: str, seed: int, shard: int, nshards: int, out: str) -> int:
    import faulthandler  # noqa: PLC0415

    ctx = Ctx(pid, tier, seed, shard, nshards)
    res = {}
    profile = os.environ.get("VMON_ENV_PROFILE", "default")
    try:
        ensure_deps()
        if os.environ.get("VMON_CHDIR") and os.environ.get("VMON_RUN_DIR"):
            elsewhere = os.path.join(os.environ["VMON_RUN_DIR"], f"cwd-{shard}")
            os.makedirs(elsewhere, exist_ok=True)
            os.chdir(elsewhere)
        for name in filter(None, os.environ.get("VMON_PREIMPORT", "").split(",")):
            try:
                importlib.import_module(name)
            except ImportError:
                pass
        bootstrap_repo()
        mod = importlib.import_module(f"vmon.props.{pid}")
        budget = getattr(mod, "WATCHDOG", {"quick": 900, "thorough": 3300})[tier]
        faulthandler.dump_traceback_later(budget, exit=True)
        from . import trace  # noqa: PLC0415

        tr = trace.Tracer(getattr(mod, "ANCHORS", []))
        tr.start()
        try:
            mod.run(ctx)
        finally:
            tr.stop()
            faulthandler.cancel_dump_traceback_later()
        ctx.classes[f"environment:{profile}:monitored-executions"] += ctx.evaluations
        snap = sys.modules.get("vmon.snapshot")
        if snap is not None:      # the route monitors inside snapshot.compare_tables: how often each was evaluated
            for label, attr in (("route:mother-by-pdg-name", "ROUTE_COUNT"), ("route:tables-through-the-chain-query", "CHAIN_ROUTE_COUNT"), ("route:tables-as-printed", "PRINT_ROUTE_COUNT"),
                                ("history:refused-failed-or-abandoned-calls-before-the-comparison", "UPSET_COUNT")):
                if getattr(snap, attr, [0])[0]:
                    ctx.monitors[label] += getattr(snap, attr)[0]
        res = ctx.dump()
        res["anchors"] = tr.report()
    except Inconclusive as e:
        res = ctx.dump()
        res["inconclusive"] = [*ctx.inconclusive, str(e)]
    except Exception as e:  # noqa: BLE001
        # An exception nobody guarded.  Raised *inside the library* (innermost frame below REPO/src, or below a third-party package the library
        # called) while a monitor asked it something it had to answer: the library refused an in-scope query -- a verdict, with the traceback as
        # witness.  Raised in the harness' own code (innermost frame in vmon): a harness failure, never a verdict on the code.
        frames = traceback.extract_tb(e.__traceback__)
        lib = os.path.join(REPO, "src") + os.sep
        here = os.path.dirname(os.path.abspath(__file__)) + os.sep
        through_lib = [f for f in frames if f.filename.startswith(lib)]
        inner_in_harness = frames[-1].filename.startswith(here) if frames else True
        if through_lib and not inner_in_harness:
            ctx.violate(f"query-refused-by-the-library:{type(e).__name__}:{through_lib[-1].name}",
                        f"{type(e).__name__}: {e}\n" + traceback.format_exc(limit=10),
                        {"kind": "uncaught-library-exception", "traceback": traceback.format_exc(limit=12)})
            res = ctx.dump()
            res["inconclusive"] = [*ctx.inconclusive, "worker stopped at the first unguarded library exception (reported as a violation); quotas not reached"]
        else:
            res = ctx.dump()
            res["inconclusive"] = [*ctx.inconclusive, "harness error: " + traceback.format_exc(limit=8)]
    with open(out, "w") as f:
        json.dump(res, f, default=repr)
    return 0


# --------------------------------------------------------------------------------------------------
# W-tests: the repository's own test-suite with the property's contracts armed (thorough tier)

BASELINE_FAILING = {"tests/dec/test_dec.py::test_particle_property_definitions", "tests/test_convert.py::test_full_convert"}


def run_wtests(pid: str, spec: dict, wd: str):
    """-> (violations, monitor counts, inconclusive reasons, summary)"""
    out = os.path.join(wd, "wtests.json")
    env = child_env()
    env["VMON_WTESTS_OUT"] = out
    env["VMON_WTESTS_GROUPS"] = ",".join(spec["groups"])
    cmd = [sys.executable, "-m", "pytest", "-q", "-rf", "-p", "no:cacheprovider", "-p", "vmon.pytest_plugin", "--timeout=900", *spec["tests"]]
    try:
        r = subprocess.run(cmd, cwd=REPO, env=env, capture_output=True, text=True, timeout=2400)
    except subprocess.TimeoutExpired:
        return [], {}, ["W-tests: the repository's test run exceeded its watchdog"], {}
    if not os.path.exists(out):
        return [], {}, ["W-tests: no result file: " + (r.stdout[-300:] + r.stderr[-300:])], {}
    with open(out) as f:
        d = json.load(f)
    failed = {ln.split(" ")[1] for ln in r.stdout.splitlines() if ln.startswith("FAILED ")}
    reasons = []
    extra = failed - BASELINE_FAILING
    if extra:
        reasons.append(f"W-tests: repository tests fail with the contracts armed: {sorted(extra)[:5]}")
    viol = []
    for v in d["violations"]:
        if v["prop"] in (pid, "harness"):
            viol.append({"mechanism": "w-tests:" + v["mechanism"], "message": f"[{v['test']}] {v['message']}",
                         "witness": {"kind": "w-tests", "test": v["test"], "detail": v.get("detail")}})
    prefixes = tuple(spec.get("counts", [pid + "."]))
    counts = {"w-tests:" + k: n for k, n in d["counts"].items() if k.startswith(prefixes)}
    tail = [ln for ln in r.stdout.splitlines() if " passed" in ln or " failed" in ln][-1:]
    return viol, counts, reasons, {"summary": tail[0] if tail else "", "contract_firings_all_properties": len(d["violations"])}


# --------------------------------------------------------------------------------------------------
# parent


def _merge(parts: list) -> dict:
    m = {"evaluations": 0, "cases": set(), "nontrivial": set(), "classes": Counter(), "monitors": Counter(),
         "firings": Counter(), "samples": [], "violations": [], "notes": {}, "workloads": Counter(),
         "inconclusive": [], "anchors": {}}
    for p in parts:
        m["evaluations"] += p.get("evaluations", 0)
        m["cases"].update(p.get("cases", []))
        m["nontrivial"].update(p.get("nontrivial", []))
        for k in ("classes", "monitors", "firings", "workloads"):
            m[k].update(p.get(k, {}))
        if len(m["samples"]) < 5:
            m["samples"].extend(p.get("samples", [])[: 5 - len(m["samples"])])
        m["violations"].extend(p.get("violations", []))
        m["inconclusive"].extend(p.get("inconclusive", []))
        for k, v in p.get("notes", {}).items():
            if isinstance(v, (int, float)) and isinstance(m["notes"].get(k), (int, float)):
                m["notes"][k] += v
            elif isinstance(v, list) and isinstance(m["notes"].get(k), list):
                m["notes"][k] = sorted(set(map(str, m["notes"][k])) | set(map(str, v)))[:200]
            else:
                m["notes"].setdefault(k, v)
        for name, a in p.get("anchors", {}).items():
            t = m["anchors"].setdefault(name, {"calls": 0, "lines_hit": set(), "lines_total": a.get("lines_total", 0), "resolved": True})
            t["resolved"] = t["resolved"] and a.get("resolved", True)
            t["calls"] += a.get("calls", 0)
            t["lines_hit"].update(a.get("lines_hit", []))
            t["lines_total"] = max(t["lines_total"], a.get("lines_total", 0))
    return m


def write_replay(pid: str, v: dict, seed: int, n: int) -> str:
    os.makedirs(REPLAYS, exist_ok=True)
    path = os.path.join(REPLAYS, f"{pid}-{v['mechanism'].replace('/', '_').replace(':', '_')[:60]}-{seed}-{n}.json")
    with open(path, "w") as f:
        json.dump({"property": pid, "seed": seed, **v}, f, indent=1, default=repr)
    return path


def run_parent(pid: str, tier: str, workers: int | None = None) -> int:
    t0 = time.time()
    seed = int(os.environ.get("VERIF_SEED", "0") or 0)
    reasons: list = []
    merged = _merge([])
    mod = None
    try:
        ensure_deps()
        bootstrap_repo()
        mod = importlib.import_module(f"vmon.props.{pid}")
    except Inconclusive as e:
        reasons.append(str(e))
    except Exception:  # noqa: BLE001
        reasons.append("harness import error: " + traceback.format_exc(limit=6))
    if mod is not None:
        n = workers or getattr(mod, "WORKERS", {"quick": 4, "thorough": 16})[tier]
        n = max(1, min(n, os.cpu_count() or 4))
        wd = os.path.join(WORK, f"{pid}-{os.getpid()}")
        os.makedirs(wd, exist_ok=True)
        limit = getattr(mod, "WATCHDOG", {"quick": 900, "thorough": 3300})[tier] + 60
        procs = []
        for i in range(n):
            out = os.path.join(wd, f"w{i}.json")
            pname, pflags, penv = ENV_PROFILES[i % len(ENV_PROFILES)] if os.environ.get("VMON_ENV_PROFILES", "1") != "0" else ENV_PROFILES[0]
            cmd = [sys.executable, "-X", "faulthandler", *pflags, "-W", "default::ResourceWarning", "-m", "vmon", pid,
                   "--tier", tier, "--worker", f"{i}/{n}", "--out", out]
            log = open(os.path.join(wd, f"w{i}.log"), "w")
            env = child_env()
            env["VMON_RUN_DIR"] = wd
            env["VMON_ENV_PROFILE"] = pname
            for k, v in penv.items():
                if v == "":
                    env.pop(k, None)
                else:
                    env[k] = v
            procs.append((i, out, log, subprocess.Popen(cmd, cwd=VERIF, env=env, stdout=log, stderr=log)))
        parts = []
        deadline = time.time() + limit
        for i, out, log, p in procs:
            try:
                p.wait(timeout=max(1, deadline - time.time()))
            except subprocess.TimeoutExpired:
                p.kill()
                p.wait()
                reasons.append(f"worker {i} exceeded the wall-clock watchdog ({limit}s)")
            log.close()
            if os.path.exists(out):
                try:
                    with open(out) as f:
                        parts.append(json.load(f))
                except Exception:  # noqa: BLE001
                    reasons.append(f"worker {i}: unreadable result")
            else:
                with open(os.path.join(wd, f"w{i}.log")) as f:
                    tail = f.read()[-600:]
                reasons.append(f"worker {i} died without result (rc={p.returncode}): {tail}")
        merged = _merge(parts)
        if tier == "thorough" and getattr(mod, "WTESTS", None):
            wv, wc, wr, wsum = run_wtests(pid, mod.WTESTS, wd)
            merged["violations"].extend(wv)
            for v in wv:
                merged["firings"][v["mechanism"]] += 1
            merged["monitors"].update(wc)
            merged["workloads"]["w-tests"] = sum(wc.values())
            merged["notes"]["w-tests"] = wsum
            reasons.extend(wr)
            if not wc and not wr:
                reasons.append("W-tests: the property's contracts were never evaluated during the repository's tests")
        shutil.rmtree(wd, ignore_errors=True)
        reasons.extend(merged["inconclusive"])
        if hasattr(mod, "finish"):
            try:
                mod.finish(merged)
            except Exception:  # noqa: BLE001
                reasons.append("harness error in finish(): " + traceback.format_exc(limit=4))
        # required classes / monitors / anchors
        req = getattr(mod, "REQUIRED", {})
        req = req.get(tier, req) if isinstance(req.get("quick", None), dict) else req
        for cls, k in req.items():
            have = merged["classes"].get(cls, 0) + merged["monitors"].get(cls, 0)
            if have < k:
                reasons.append(f"required class/monitor '{cls}' observed {have} < {k}")
        # Anchors are coverage evidence, keyed by private names a refactoring may rename, move or stop calling; the behavioural
        # monitors and classes above (REQUIRED) carry the verdict and the inconclusive rule.
        anchors = getattr(mod, "ANCHORS_REQUIRED", getattr(mod, "ANCHORS", []))
        reached = 0
        for a in anchors:
            info = merged["anchors"].get(a, {})
            if not info.get("resolved", True):
                merged["notes"].setdefault("anchors_not_found", []).append(a)
            elif info.get("calls", 0) == 0:
                merged["notes"].setdefault("anchors_not_reached", []).append(a)
            else:
                reached += 1
        if anchors and not reached:
            merged["notes"]["anchors"] = "none of the anchored functions executed under its recorded name; the verdict rests on the monitors and classes"
        if merged["evaluations"] == 0:
            reasons.append("no monitored execution at all")

    # classify violations
    known = load_known()
    real, known_seen = [], Counter()
    for v in merged["violations"]:
        mech = v["mechanism"]
        if (pid, mech) in known:
            known_seen[mech] += 1
        else:
            real.append(v)
    for mech, k in merged["firings"].items():
        if (pid, mech) in known:
            known_seen[mech] = max(known_seen[mech], k)
    for mech in sorted(known_seen):
        print(f"KNOWN-FINDING: property={pid} {mech}: {known[(pid, mech)]} (seen {known_seen[mech]}x)")
    replay_paths = []
    seen_mech = Counter()
    for v in real:
        seen_mech[v["mechanism"]] += 1
        if seen_mech[v["mechanism"]] > 3:
            continue
        path = write_replay(pid, v, seed, len(replay_paths))
        replay_paths.append(path)
        print(f"VIOLATION property={pid} replay={path}")
        print("   mechanism=" + v["mechanism"] + " :: " + v["message"].splitlines()[0][:300])

    n_viol = sum(k for mech, k in merged["firings"].items() if (pid, mech) not in known)
    wall = round(time.time() - t0, 2)
    distinct = len(merged["nontrivial"])
    coverage = {
        "evaluations": merged["evaluations"],
        "distinct_nontrivial": distinct,
        "distinct_cases": len(merged["cases"]),
        "rule": getattr(mod, "RULE", "") if mod else "",
        "samples": merged["samples"][:5],
        "classes": dict(sorted(merged["classes"].items())),
        "required": (getattr(mod, "REQUIRED", {}) if mod else {}),
        "monitors": {k: {"evaluations": v, "firings": merged["firings"].get(k, 0)} for k, v in sorted(merged["monitors"].items())},
        "firings": dict(merged["firings"]),
        "anchors": {k: {"calls": a["calls"], "lines_hit": len(a["lines_hit"]), "lines_total": a["lines_total"], "resolved": a.get("resolved", True)}
                    for k, a in sorted(merged["anchors"].items())},
        "workloads": dict(merged["workloads"]),
        "known_findings_seen": dict(known_seen),
        "inconclusive_reasons": reasons[:20],
        "notes": merged["notes"],
        "workers": (workers or (getattr(mod, "WORKERS", {"quick": 4, "thorough": 16})[tier] if mod else 0)),
        "verdict": "violation" if real else ("inconclusive" if reasons else "held"),
        "repo": REPO,
    }
    if mod is not None and getattr(mod, "EXHAUSTIVE_NOTE", None):
        coverage["exhaustive_subspaces"] = mod.EXHAUSTIVE_NOTE
    ev = {
        "property_id": pid, "tier": tier, "seed": seed, "level": "exploration", "coverage": coverage,
        "assumptions": list(getattr(mod, "ASSUMPTIONS", [])) if mod else [],
        "wall_s": wall, "violations": n_viol,
    }
    # evidence is only (re)written for runs against the registered tree or explicit override
    evpath = os.environ.get("VERIF_EVIDENCE_DIR", EVIDENCE)
    os.makedirs(evpath, exist_ok=True)
    with open(os.path.join(evpath, f"{pid}.json"), "w") as f:
        json.dump(ev, f, indent=1, default=repr)
        f.write("\n")
    print(f"{pid} tier={tier} seed={seed} evaluations={merged['evaluations']} distinct_nontrivial={distinct} "
          f"violations={n_viol} known={sum(known_seen.values())} wall={wall}s")
    if real:
        return 1
    if reasons:
        for r in reasons[:8]:
            print(f"INCONCLUSIVE property={pid} reason={r[:500]}")
        return 2
    print(f"HELD property={pid} (on what was observed)")
    return 0


def run_replay(pid: str, path: str) -> int:
    ensure_deps()
    bootstrap_repo()
    mod = importlib.import_module(f"vmon.props.{pid}")
    with open(path) as f:
        v = json.load(f)
    ctx = Ctx(pid, "quick", int(v.get("seed", 0)), 0, 1, replaying=True)
    if not hasattr(mod, "replay"):
        print("no replay function for", pid)
        return 2
    if v["witness"].get("kind") == "uncaught-library-exception":
        print(f"replay of {path}: the recorded witness is a traceback of an exception the library raised inside a monitor's query:")
        print(v["witness"].get("traceback", ""))
        print("re-run the check itself (same VERIF_SEED) to reproduce it")
        return 1
    mod.replay(ctx, v["witness"])
    known = load_known()
    bad = [x for x in ctx.violations if (pid, x["mechanism"]) not in known]
    for x in ctx.violations:
        print(("VIOLATION" if x in bad else "KNOWN-FINDING:"), f"property={pid} replay={path}")
        print("   mechanism=" + x["mechanism"] + " :: " + x["message"][:1500])
    if not ctx.violations:
        print(f"replay of {path}: no monitor fired")
    return 1 if bad else 0
