"""Quota-driven generators of .dec files as abstract statement lists (see declang for the language)."""
from __future__ import annotations

import functools

from . import declang as L
from . import names as N

LADDER = [0, 1, 2, 3, 4, 5, 8, 12]
WORDS = ["x", "dm", "y_1", "beta", "CKM", "on", "off", "alpha", "-x", "+y", "q2", "FF", "w'"]
END_LABELS = ["B0_SigEnd", "dmEndpoint", "TagEnd", "xEnd2", "EndOfRun", "Endcap", "Enddecays", "End_1", "theEnd"]
EXT_LABELS = ["VSS1", "SLL0", "PHSP3", "HELAMP2", "ISGW22", "PHSP_x", "SVS9", "HQET2a", "VSS_BMIX2", "PHSP0", "SLN_1", "TAUOLA5"]
FLOATLIKE = ["inf", "nan", "-Infinity", "+nan", "NaN", "Inf", "-inf", "infinity", "e5", "E-3"]   # words, not numeric literals of the language


@functools.lru_cache(maxsize=None)
def real_names():
    models = L.published_models()
    return tuple(n for n in N.evtgen_names() if L.label_ok(n, models))


class Gen:
    def __init__(self, rng, models=None, user_models=()):
        self.rng = rng
        self.models = tuple(models if models is not None else L.published_models())
        self.user_models = tuple(user_models)
        self.allmodels = self.models + self.user_models
        self.real = real_names()
        self._model_i = rng.randrange(len(self.models))

    # ---- atoms
    def ladder(self, hi=12, lo=0):
        return self.rng.choice([x for x in LADDER if lo <= x <= hi])

    def numlit(self):
        return self.rng.choice(L.NUM_FORMS)

    def bflit(self):
        r = self.rng
        return r.choice(["1.0", "0.5", ".25", "2E-3", "1", "1.", "+0.125", "20.e-2", "0.0314", "1e-5", "0", "-0.8", "0.3333"]) if r.random() < 0.8 \
            else repr(round(r.random(), r.randint(1, 8)))

    def label(self, odd=None):
        if odd is None and self.rng.random() < 0.05:
            # names that contain the word End (the statement that closes a file) without being it
            w = self.rng.choice(END_LABELS)
            if L.label_ok(w, self.allmodels):
                return w
        odd = self.rng.random() < 0.15 if odd is None else odd
        return L.gen_label(self.rng, self.allmodels, odd=odd)

    def name(self, extra=()):
        """A particle-ish name: real EvtGen name, alias-like, or arbitrary label."""
        r = self.rng.random()
        if extra and r < 0.25:
            return self.rng.choice(list(extra))
        if r < 0.7:
            return self.rng.choice(self.real)
        if r < 0.74:
            # a label that continues a published model name with digits, an underscore or letters: one word of the language all the same
            w = self.rng.choice(EXT_LABELS)
            if L.label_ok(w, self.allmodels):
                return w
        return self.label()

    def next_model(self):
        """Cycle through the published list so that every name occurs (quota, not chance)."""
        self._model_i = (self._model_i + 1) % len(self.models)
        return self.models[self._model_i]

    def params(self, defs=(), k=None):
        r = self.rng
        k = self.ladder(8) if k is None else k
        out = []
        for _ in range(k):
            x = r.random()
            if x < 0.5:
                out.append(self.numlit())
            elif x < 0.7 and defs:
                d = r.choice(list(defs))
                out.append(("-" if r.random() < 0.3 else "") + d)
            elif x < 0.82:
                w = r.choice(WORDS)
                out.append(w if L.label_ok(w, self.allmodels) else "x")
            elif x < 0.86:
                out.append(r.choice(FLOATLIKE))
            else:
                out.append(self.label())
            if len(out) >= 1 and r.random() < 0.12:
                out.append(out[-1])         # the same parameter twice in a row (0.0 0.0 ...)
        return out

    def line(self, daughters_pool=(), defs=(), model=None, ndaughters=None, photos=None, params=None):
        r = self.rng
        nd = self.rng.choice([0, 1, 2, 2, 3, 3, 4, 5, 6]) if ndaughters is None else ndaughters
        fs = [self.name(daughters_pool) for _ in range(nd)]
        if fs and r.random() < 0.25:
            fs.append(fs[0])
        model = model or (self.next_model() if r.random() < 0.7 else r.choice(self.allmodels))
        ps = self.params(defs) if params is None else params
        return {"bf": self.bflit(), "fs": fs, "photos": (r.random() < 0.3) if photos is None else photos, "model": model, "params": ps}

    def decay(self, mother, nlines=None, **kw):
        nl = self.ladder() if nlines is None else nlines
        return {"k": "Decay", "m": mother, "lines": [self.line(**kw) for _ in range(nl)]}

    # ---- global statements (C07)
    def misc(self, kind, names_pool=()):
        r = self.rng
        nm = lambda: (r.choice(list(names_pool)) if names_pool and r.random() < 0.5 else self.name())  # noqa: E731
        if kind == "Alias":
            return {"k": "Alias", "a": self.label(), "b": nm()}
        if kind == "ChargeConj":
            return {"k": "ChargeConj", "a": self.label(), "b": self.label()}
        if kind == "Define":
            return {"k": "Define", "name": r.choice(["dm", "x", "y_1", "beta", self.label(odd=False)]), "value": self.numlit()}
        if kind == "CopyDecay":
            return {"k": "CopyDecay", "a": self.label(), "b": nm()}
        if kind == "CDecay":
            return {"k": "CDecay", "name": nm()}
        if kind == "Pythia":
            v = r.choice([self.numlit(), "on", "off", self.label(odd=False)])
            return {"k": "Pythia", "cmd": r.choice(["PythiaAliasParam", "PythiaBothParam", "PythiaGenericParam"]),
                    "mod": r.choice(["ParticleDecays", "A", "StringFlav", self.label(odd=False)]), "par": r.choice(["mixB", "b", "c_1", "probQQtoQ"]),
                    "value": v, "sp": r.choice([(" ", " "), ("", ""), (" ", ""), ("", " ")])}
        if kind == "JetSet":
            return {"k": "JetSet", "name": r.choice(["MSTJ", "PARJ", "MDCY", "MSTU", "P"]), "idx": r.randint(0, 200),
                    "value": self.numlit() if r.random() < 0.8 else r.choice(["9007199254740993", "12345678901234567890", "-36028797018963969", "+18014398509481985", "100000000000000000000001"])}    # integers a double cannot hold
        if kind == "LS":
            return {"k": "LS", "cmd": r.choice(["LSFLAT", "LSNONRELBW", "LSMANYDELTAFUNC"]), "name": nm()}
        if kind == "BW":
            return {"k": "BW", "name": nm(), "value": self.numlit()}
        if kind == "CM":
            return {"k": "CM", "cmd": r.choice(["ChangeMassMin", "ChangeMassMax"]), "name": nm(), "value": self.numlit()}
        if kind == "INC":
            return {"k": "INC", "cmd": r.choice(["IncludeBirthFactor", "IncludeDecayFactor"]), "name": nm(), "value": r.choice(["yes", "no"])}
        if kind == "LSPW":
            return {"k": "LSPW", "a": nm(), "b": nm(), "c": nm(), "value": str(r.randint(0, 4))}
        if kind == "Photos":
            return {"k": "Photos", "on": r.random() < 0.5}
        if kind == "ModelAlias":
            return {"k": "ModelAlias", "name": "MA" + self.label(odd=False), "model": r.choice(self.models), "params": self.params(k=r.choice([0, 1, 2, 4]))}
        raise KeyError(kind)


MISC_KINDS = ["Alias", "ChargeConj", "Define", "CopyDecay", "CDecay", "Pythia", "JetSet", "LS", "BW", "CM", "INC", "LSPW", "Photos"]


def interleave(rng, *groups):
    """Merge statement groups keeping the relative order inside each group."""
    groups = [list(g) for g in groups if g]
    out = []
    while groups:
        g = rng.choice(groups)
        out.append(g.pop(0))
        if not g:
            groups.remove(g)
    return out
