""".dec side: the in-scope language L_dec (abstract statements), canonical rendering, an independent
reference reader for real files, the reference semantics of every public query, and the building
blocks of the generators (labels, numeric literals, model names).

Nothing here imports decaylanguage's parser; the only thing taken from the repository is the *published
list* of model names, which is input data of the properties.
"""
from __future__ import annotations

import re
from decimal import Decimal

from . import names as N

ALPHABET_EXTRA = "/-+*_().'~"
RESERVED = {"Decay", "Enddecay", "End", "CDecay", "CopyDecay", "Define", "Alias", "ChargeConj", "Particle", "ModelAlias", "JetSetPar",
            "BlattWeisskopf", "SetLineshapePW", "yesPhotos", "noPhotos", "PHOTOS", "PythiaAliasParam", "PythiaBothParam", "PythiaGenericParam",
            "LSFLAT", "LSNONRELBW", "LSMANYDELTAFUNC", "IncludeBirthFactor", "IncludeDecayFactor", "ChangeMassMin", "ChangeMassMax", "yes", "no"}
NUM_FORMS = ["1", "1.", ".5", "-0.8", "+3", "20.e12", "2E-4", "1e5", "1.5E+3", "0", "-7", "+.25", "3.14159", "1E0", "00.50"]
NUM = re.compile(r"[+-]?(\d+\.?\d*([eE][+-]?\d+)?|\.\d+([eE][+-]?\d+)?)$")
NUMPREFIX = re.compile(r"[+-]?(\d|\.\d)")
FLOATWORDS = re.compile(r"[+-]?(inf|infinity|nan)$", re.I)


class Unsupported(Exception):
    pass


def isnum(t):
    return bool(NUM.match(t))


def num(t):
    return float(Decimal(t))


def published_models():
    from decaylanguage.dec.enums import known_decay_models  # noqa: PLC0415

    return tuple(known_decay_models)


def label_ok(s, models=(), strict_model_prefix=True):
    """Is s a label of L_dec (DESIGN 2.1)?"""
    if not s or not re.fullmatch(r"[a-zA-Z0-9/\-+*_().'~]+", s):
        return False
    if NUMPREFIX.match(s) or s in RESERVED or FLOATWORDS.match(s):
        return False
    if strict_model_prefix:
        for m in models:
            if s.startswith(m) and (len(s) == len(m) or not re.match(r"[A-Za-z0-9_]", s[len(m)])):
                return False
    return True


def gen_label(rng, models=(), odd=False, maxlen=7):
    chars = "abcdefgxyzABDKXYZ0123456789" + ALPHABET_EXTRA * 2
    for _ in range(200):
        first = rng.choice("(~'*/_+-") if odd else rng.choice("abcdefgxyzABDKXYZqQ")
        s = first + "".join(rng.choice(chars) for _ in range(rng.randint(0 if not odd else 1, maxlen)))
        if label_ok(s, models):
            return s
    return "lbl"


# --------------------------------------------------------------------------------------------------
# canonical rendering of the abstract model


def render_stmt(st):
    k = st["k"]
    if k == "Decay":
        out = [f"Decay {st['m']}"]
        for ln in st["lines"]:
            toks = [ln["bf"], *ln["fs"]]
            if ln.get("photos"):
                toks.append("PHOTOS")
            toks.append(ln["model"])
            if ln.get("wrap") and ln["params"]:
                out.append("  " + " ".join(toks) + "".join("\n      " + p for p in ln["params"]) + "\n  ;")
                continue
            toks += list(ln["params"])
            out.append("  " + " ".join(toks) + (" ;" if ln.get("space_before_semicolon") else ";"))
        out.append("Enddecay")
        return "\n".join(out)
    if k == "ModelAlias":
        return " ".join(["ModelAlias", st["name"], st["model"], *st["params"]]) + ";"
    if k in ("Alias", "ChargeConj", "CopyDecay"):
        return f"{k} {st['a']} {st['b']}"
    if k == "Define":
        return f"Define {st['name']} {st['value']}"
    if k == "CDecay":
        return f"CDecay {st['name']}"
    if k == "Particle":
        return " ".join(["Particle", st["name"], st["mass"], *([st["width"]] if st.get("width") is not None else [])])
    if k == "Pythia":
        sp = st.get("sp", (" ", " "))
        return f"{st['cmd']} {st['mod']}:{st['par']}{sp[0]}={sp[1]}{st['value']}"
    if k == "JetSet":
        return f"JetSetPar {st['name']}({st['idx']})={st['value']}"
    if k == "LS":
        return f"{st['cmd']} {st['name']}"
    if k == "BW":
        return f"BlattWeisskopf {st['name']} {st['value']}"
    if k == "CM":
        return f"{st['cmd']} {st['name']} {st['value']}"
    if k == "INC":
        return f"{st['cmd']} {st['name']} {st['value']}"
    if k == "LSPW":
        return f"SetLineshapePW {st['a']} {st['b']} {st['c']} {st['value']}"
    if k == "Photos":
        return "yesPhotos" if st["on"] else "noPhotos"
    if k == "End":
        return "End"
    raise KeyError(k)


def render(stmts):
    return "\n".join(render_stmt(s) for s in stmts) + "\n"


# --------------------------------------------------------------------------------------------------
# independent reader for real files (lossless lexer + keyword-driven state machine)


def lex(text):
    """-> [(kind, s)] with kind in TOK / WS / NL / COM; concatenation reproduces the input byte for byte."""
    out = []
    i, n = 0, len(text)
    while i < n:
        c = text[i]
        if c == "#":
            j = text.find("\n", i)
            j = n if j < 0 else j
            if j > i and text[j - 1] == "\r":
                j -= 1
            out.append(("COM", text[i:j]))
            i = j
        elif c == "\n":
            out.append(("NL", "\n"))
            i += 1
        elif c == "\r" and i + 1 < n and text[i + 1] == "\n":
            out.append(("NL", "\r\n"))
            i += 2
        elif c in " \t":
            j = i
            while j < n and text[j] in " \t":
                j += 1
            out.append(("WS", text[i:j]))
            i = j
        elif c in ";,=:":
            out.append(("TOK", c))
            i += 1
        else:
            j = i
            while j < n and text[j] not in " \t\r\n#;,=:":
                j += 1
            if j == i:
                raise Unsupported(f"char {c!r}")
            out.append(("TOK", text[i:j]))
            i = j
    return out


KW2 = {"Alias", "ChargeConj", "CopyDecay"}
NLS = ("\n", "\r\n")


def read(text, models, user_models=()):
    """Real text -> ordered list of abstract statements (same shape as the generators produce) or Unsupported."""
    lx = lex(text)
    if "".join(s for _, s in lx) != text:
        raise Unsupported("lexer not lossless")
    modelset = set(models) | set(user_models)
    sig = [s for k, s in lx if k == "TOK"]
    aliases_m = {sig[i + 1] for i, t in enumerate(sig) if t == "ModelAlias" and i + 1 < len(sig)}
    T = [s for k, s in lx if k in ("TOK", "NL")]
    out = []

    def skipnl(i):
        while i < len(T) and T[i] in NLS:
            i += 1
        return i

    def line_tokens(i):
        j = i
        o = []
        while j < len(T) and T[j] not in NLS:
            o.append(T[j])
            j += 1
        return o, j

    def read_model(ts):
        photos = False
        if ts and ts[0] == "PHOTOS":
            photos = True
            ts = ts[1:]
        if not ts:
            raise Unsupported("no model")
        m = ts[0]
        if m not in modelset and m not in aliases_m:
            raise Unsupported(f"model? {m}")
        params = [t for t in ts[1:] if t not in (",", "\n", "\r\n")]
        return photos, m, params

    i = skipnl(0)
    ended = False
    while i < len(T):
        t = T[i]
        if ended:
            raise Unsupported("content after End")
        if t == "Decay":
            lt, j = line_tokens(i)
            if len(lt) != 2:
                raise Unsupported(f"Decay line {lt}")
            mother = lt[1]
            i = skipnl(j)
            lines = []
            while True:
                if i >= len(T):
                    raise Unsupported("unterminated Decay")
                if T[i] == "Enddecay":
                    i += 1
                    break
                ts = []
                while i < len(T) and T[i] != ";":
                    ts.append(T[i])
                    i += 1
                if i >= len(T):
                    raise Unsupported("no ;")
                while i < len(T) and T[i] == ";":
                    i += 1
                if not ts or not isnum(ts[0]):
                    raise Unsupported(f"bf? {ts[:3]}")
                k = 1
                ds = []
                while k < len(ts) and ts[k] not in NLS and ts[k] != "PHOTOS" and ts[k] not in modelset and ts[k] not in aliases_m:
                    ds.append(ts[k])
                    k += 1
                photos, m, params = read_model(ts[k:])
                lines.append({"bf": ts[0], "fs": ds, "photos": photos, "model": m, "params": params})
                i = skipnl(i)
            out.append({"k": "Decay", "m": mother, "lines": lines})
            lt, j = line_tokens(i)
            if lt:
                raise Unsupported(f"after Enddecay {lt}")
            i = skipnl(j)
            continue
        if t == "ModelAlias":
            ts = []
            i += 1
            while i < len(T) and T[i] != ";":
                ts.append(T[i])
                i += 1
            while i < len(T) and T[i] == ";":
                i += 1
            if not ts:
                raise Unsupported("ModelAlias?")
            photos, m, params = read_model(ts[1:])
            if photos:
                raise Unsupported("PHOTOS in ModelAlias")
            out.append({"k": "ModelAlias", "name": ts[0], "model": m, "params": params})
            lt, j = line_tokens(i)
            if lt:
                raise Unsupported(f"after ModelAlias {lt}")
            i = skipnl(j)
            continue
        lt, j = line_tokens(i)
        a = lt[1:]

        def need(n):
            if len(a) != n:
                raise Unsupported(f"arity {lt}")

        if t in KW2:
            need(2)
            out.append({"k": t, "a": a[0], "b": a[1]})
        elif t == "Define":
            need(2)
            out.append({"k": "Define", "name": a[0], "value": a[1]})
        elif t == "CDecay":
            need(1)
            out.append({"k": "CDecay", "name": a[0]})
        elif t == "Particle":
            if len(a) not in (2, 3):
                raise Unsupported(f"Particle {lt}")
            out.append({"k": "Particle", "name": a[0], "mass": a[1], "width": a[2] if len(a) == 3 else None})
        elif t in ("PythiaAliasParam", "PythiaBothParam", "PythiaGenericParam"):
            if len(lt) != 6 or lt[2] != ":" or lt[4] != "=":
                raise Unsupported(f"pythia {lt}")
            out.append({"k": "Pythia", "cmd": t, "mod": lt[1], "par": lt[3], "value": lt[5]})
        elif t == "JetSetPar":
            m = re.fullmatch(r"([a-zA-Z]+)\((\d+)\)", lt[1]) if len(lt) == 4 and lt[2] == "=" else None
            if not m:
                raise Unsupported(f"jetset {lt}")
            out.append({"k": "JetSet", "name": m.group(1), "idx": int(m.group(2)), "value": lt[3]})
        elif t in ("LSFLAT", "LSNONRELBW", "LSMANYDELTAFUNC"):
            need(1)
            out.append({"k": "LS", "cmd": t, "name": a[0]})
        elif t == "BlattWeisskopf":
            need(2)
            out.append({"k": "BW", "name": a[0], "value": a[1]})
        elif t in ("ChangeMassMin", "ChangeMassMax"):
            need(2)
            out.append({"k": "CM", "cmd": t, "name": a[0], "value": a[1]})
        elif t in ("IncludeBirthFactor", "IncludeDecayFactor"):
            need(2)
            out.append({"k": "INC", "cmd": t, "name": a[0], "value": a[1]})
        elif t == "SetLineshapePW":
            need(4)
            out.append({"k": "LSPW", "a": a[0], "b": a[1], "c": a[2], "value": a[3]})
        elif t in ("yesPhotos", "noPhotos"):
            need(0)
            out.append({"k": "Photos", "on": t == "yesPhotos"})
        elif t == "End":
            need(0)
            ended = True
        else:
            raise Unsupported(f"statement {lt[:4]}")
        i = skipnl(j)
    return out


# --------------------------------------------------------------------------------------------------
# reference semantics of the public queries


def file_conj(cc):
    """Conjugation rule of a file: ChargeConj statements read both ways, else the name table."""

    def conj(n):
        if n in cc:
            return cc[n]
        for k, v in cc.items():
            if v == n:
                return k
        return N.conj(n)

    return conj


def expected(stmts, include_cc=True):
    defs, mal, mal_raw = {}, {}, {}
    alias, cc, copy, cdecay = {}, {}, {}, []
    particle, pythia, jetset, lspw = {}, {}, {}, []
    ls, ls_raises = {}, False
    photos = 0
    for s in stmts:
        k = s["k"]
        if k == "Define":
            defs[s["name"]] = num(s["value"])
        elif k == "ModelAlias":
            mal[s["name"]] = (s["model"], list(s["params"]))
            mal_raw[s["name"]] = [s["model"], *s["params"]]
        elif k == "Alias":
            alias[s["a"]] = s["b"]
        elif k == "ChargeConj":
            cc[s["a"]] = s["b"]
        elif k == "CopyDecay":
            copy[s["a"]] = s["b"]
        elif k == "CDecay":
            cdecay.append(s["name"])
        elif k == "Pythia":
            v = s["value"]
            pythia.setdefault(s["cmd"], {})[f"{s['mod']}:{s['par']}"] = num(v) if isnum(v) else v
        elif k == "JetSet":
            v = s["value"]
            jetset.setdefault(s["name"], {})[int(s["idx"])] = int(v) if re.fullmatch(r"[+-]?\d+", v) else num(v)
        elif k == "LSPW":
            lspw.append(([s["a"], s["b"], s["c"]], int(s["value"])))
        elif k == "Photos":
            photos = 1 if s["on"] else 0
    # Particle statements need the final alias table
    particle_raises = False
    for s in stmts:
        if s["k"] == "Particle":
            if s.get("width") is not None:
                w = num(s["width"])
            else:
                w = N.ref_width_gev(alias.get(s["name"], s["name"]))
                if w is None or w < 0:
                    particle_raises = True
                    w = None
            particle[s["name"]] = {"mass": num(s["mass"]), "width": w}
    # lineshape settings: grouped by kind in the order LS, BW, CM, INC (a repeated setting is an error)
    for kinds in (("LS",), ("BW",), ("CM",), ("INC",)):
        for s in stmts:
            if s["k"] not in kinds:
                continue
            d = ls.setdefault(s["name"], {})
            if s["k"] == "LS":
                key, val = "lineshape", s["cmd"]
            elif s["k"] == "BW":
                key, val = "BlattWeisskopf", num(s["value"])
            elif s["k"] == "CM":
                key, val = s["cmd"], num(s["value"])
            else:
                key, val = s["cmd"], s["value"] == "yes"
            if key in d:
                ls_raises = True
            d[key] = val

    def P(p):
        if isnum(p):
            return num(p)
        neg = p[0] == "-"
        w = p[1:] if neg else p
        if w in defs:
            return -defs[w] if neg else defs[w]
        return p

    tables, order = {}, []
    for s in stmts:
        if s["k"] != "Decay" or s["m"] in tables:
            continue
        lines = []
        for ln in s["lines"]:
            model, params = ln["model"], ln["params"]
            if model in mal:
                model, params = mal[model]
            lines.append({"bf": num(ln["bf"]), "fs": list(ln["fs"]), "photos": bool(ln.get("photos")), "model": model, "params": [P(p) for p in params]})
        tables[s["m"]] = lines
        order.append(s["m"])
    derived = {}
    copy_missing = []
    for new, old in copy.items():
        if old in tables:
            derived[new] = [dict(ln, fs=list(ln["fs"]), params=list(ln["params"])) for ln in tables[old]]
        else:
            copy_missing.append(new)
    conj = file_conj(cc)
    cc_missing = []
    if include_cc:
        have = dict(tables)
        have.update(derived)
        for x in sorted(set(cdecay)):
            if x in have:
                continue
            src = conj(x)
            if src in have:
                derived[x] = [dict(ln, fs=[conj(d) for d in ln["fs"]], params=list(ln["params"])) for ln in have[src]]
            else:
                cc_missing.append(x)
    return {"order": order, "tables": tables, "derived": derived, "aliases": alias, "cc": cc, "defs": defs, "copy": copy,
            "cdecay": sorted(cdecay), "particle": particle, "particle_raises": particle_raises, "pythia": pythia, "jetset": jetset,
            "ls": ls, "ls_raises": ls_raises, "lspw": lspw, "photos": photos, "model_aliases": mal_raw,
            "copy_missing": copy_missing, "cc_missing": cc_missing}


def line_tuple(ln, with_photos=True):
    """Comparable form of one expected decay line."""
    model = ("PHOTOS " if (ln["photos"] and with_photos) else "") + ln["model"]
    return (ln["bf"], tuple(ln["fs"]), model, tuple(ln["params"]))


def typed(x):
    """Value with exact types (1 vs 1.0 vs True differ)."""
    if isinstance(x, dict):
        return {k: typed(v) for k, v in x.items()}
    if isinstance(x, (list, tuple)):
        return [typed(v) for v in x]
    return (type(x).__name__, x)
