"""Readers for the generated GooFit code: the C++ text is *read* (section split + a tiny expression reader), the
Python text is *executed* against a recording stand-in for the `goofit` module -- so "valid Python that runs
against the API" and "every symbol declared before use" (no NameError) are decided by that execution.
Both produce the same abstract model, which C18 compares with its oracle and C19 compares across languages.
"""
from __future__ import annotations

import itertools
import re
import sys
import types

TOK = re.compile(r'\s*(?:(?P<str>"(?:[^"\\]|\\.)*")|(?P<num>[-+]?(?:\d+\.?\d*|\.\d+)(?:[eE][-+]?\d+)?)'
                 r'|(?P<id>(?:new\s+)?[A-Za-z_][\w]*(?:(?:::|\.)[A-Za-z_][\w]*)*(?:<[^()]*?>)?)|(?P<p>[(){}\[\],;=*]))')


class Unreadable(Exception):
    pass


def tokens(s):
    i = 0
    out = []
    while i < len(s):
        m = TOK.match(s, i)
        if not m:
            if s[i:].strip() == "":
                break
            raise Unreadable(f"cannot tokenise {s[i:i + 40]!r}")
        i = m.end()
        k = m.lastgroup
        out.append((k, m.group(k)))
    return out


def parse_expr(t, i):
    if i >= len(t):
        raise Unreadable("unexpected end of expression")
    k, v = t[i]
    if k == "str":
        return ("s", v[1:-1]), i + 1
    if k == "num":
        return ("n", float(v)), i + 1
    if k == "id":
        name = re.sub(r"^new\s+", "", v).replace("::", ".")
        name = re.sub(r"<.*>$", "", name)
        if i + 1 < len(t) and t[i + 1][1] in "({":
            close = {"(": ")", "{": "}"}[t[i + 1][1]]
            args, i = parse_list(t, i + 2, close)
            return ("c", name, args), i
        return ("i", name), i + 1
    if k == "p" and v in "({[":
        close = {"(": ")", "{": "}", "[": "]"}[v]
        args, i = parse_list(t, i + 1, close)
        return ("t", args), i
    raise Unreadable(f"cannot read expression at {t[i:i + 5]}")


def parse_list(t, i, close):
    args = []
    while True:
        if i >= len(t):
            raise Unreadable("unclosed bracket")
        if t[i][1] == close:
            return args, i + 1
        e, i = parse_expr(t, i)
        args.append(e)
        if i < len(t) and t[i][1] == ",":
            i += 1


MASS_SYMS = [f"M_{a}{b}" for a, b in itertools.permutations("1234", 2)] + [f"M_{a}{b}_{c}" for a, b, c in itertools.permutations("1234", 3)]
CPP_VOCAB = {"DK3P_DI", "mkvar", "fptype", "true", "false", "line_factor_list", "spin_factor_list", "amplitudes_list", "Variable", "Amplitude",
             "SpinFactor", "Lineshape", "std", "vector", "constexpr", "new"} | set(MASS_SYMS)


def _idents(expr, acc):
    k = expr[0]
    if k == "i":
        acc.append(expr[1])
    elif k == "c":
        acc.append(("call", expr[1]))
        for a in expr[2]:
            _idents(a, acc)
    elif k == "t":
        for a in expr[1]:
            _idents(a, acc)


CTOK = re.compile(r'\s*(?:(?P<com>//[^\n]*|/\*.*?\*/)|(?P<str>"(?:[^"\\]|\\.)*")|(?P<num>[-+]?(?:\d+\.?\d*|\.\d+)(?:[eE][-+]?\d+)?)'
                  r'|(?P<id>(?:new\s+)?[A-Za-z_][\w]*(?:(?:::|\.)[A-Za-z_][\w]*)*(?:<[^(){};"]*>)?)|(?P<p>[(){}\[\],;=*]))', re.S)


def statements(text):
    """C++ text -> [(tokens without comments, comments seen since the previous statement)], split at top-level ';'."""
    i, depth = 0, 0
    out, cur, coms = [], [], []
    while i < len(text):
        m = CTOK.match(text, i)
        if not m:
            if text[i:].strip() == "":
                break
            raise Unreadable(f"cannot tokenise {text[i:i + 40]!r}")
        i = m.end()
        k = m.lastgroup
        v = m.group(k)
        if k == "com":
            if not cur:
                coms.append(v)
            continue
        if k == "p" and v in "({[":
            depth += 1
        elif k == "p" and v in ")}]":
            depth -= 1
            if depth < 0:
                raise Unreadable("unbalanced closing bracket")
        if k == "p" and v == ";" and depth == 0:
            if cur:
                out.append((cur, coms))
            cur, coms = [], []
            continue
        cur.append((k, v))
    if cur:
        raise Unreadable(f"text ends inside a statement: {cur[:6]}")
    return out


def _unwrap_vector(e):
    """std::vector<T>({a, b}) / std::vector<T>{a, b} / {a, b}  ->  [a, b]"""
    if e[0] == "c" and e[1].split(".")[-1] == "vector":
        args = e[2]
        if len(args) == 1 and args[0][0] == "t":
            return args[0][1]
        return args
    if e[0] == "t":
        return e[1]
    raise Unreadable(f"expected a vector expression, got {e!r}"[:200])


def read_cpp(text):
    """C++ output -> abstract model (+ 'undeclared': symbols used before / without declaration, in statement order).

    The text is read statement by statement (comments and line layout do not matter): constants, Variables, arrays of
    Variables, the particle-mass assignment, and per amplitude the three push_back statements."""
    ev = re.search(r"Event type: (.*)", text)
    m = {"consts": {}, "resvars": {}, "pars": {}, "arrays": {}, "amps": [], "event": ev.group(1).strip() if ev else None, "masses": None,
         "undeclared": [], "order": [], "other_statements": []}
    declared = set()

    def use(name, where):
        head = name.split(".")[0]
        if name in declared or name in CPP_VOCAB or head in ("Lineshapes", "SF_4Body", "FF", "std", "line_factor_list", "spin_factor_list", "amplitudes_list", "DK3P_DI"):
            return
        m["undeclared"].append((name, where))

    def use_all(exprs, where):
        acc = []
        for e in exprs:
            _idents(e, acc)
        for x in acc:
            use(x[1] if isinstance(x, tuple) else x, where)

    seen_masses = False
    pend = {}
    stmts = statements(text)
    if not stmts:
        raise Unreadable("no statement in the C++ text")
    for t, coms in stmts:
        ids = [v for k, v in t if k == "id"]
        head = t[0][1] if t[0][0] == "id" else None
        if head == "constexpr" and len(t) >= 4 and t[1][1] == "fptype":
            e, _ = parse_expr(t, 2)
            if not (e[0] == "c" and len(e[2]) == 1):
                raise Unreadable(f"constant declaration {t[:8]}")
            use_all(e[2], "constant " + e[1])
            m["consts"][e[1]] = e[2][0][1] if e[2][0][0] == "n" else e[2][0]
            declared.add(e[1])
        elif head == "Variable" and len(t) >= 3:
            e, _ = parse_expr(t, 1)
            if not (e[0] == "c" and e[2] and e[2][0][0] == "s" and all(x[0] == "n" for x in e[2][1:]) and len(e[2]) >= 2):
                raise Unreadable(f"Variable declaration {t[:10]}")
            q = e[2][0][1]
            v = [x[1] for x in e[2][1:]]
            if not seen_masses:
                m["resvars"][e[1]] = (q, v[0])
            else:
                m["pars"][e[1]] = (q, v[0], v[1] if len(v) > 1 else None)
                m["order"].append(e[1])
            declared.add(e[1])
        elif head is not None and head.startswith("std::vector<"):
            if len(t) == 2 and t[1][0] == "id":
                declared.add(t[1][1])           # declaration without initialiser
                continue
            e, _ = parse_expr(t, 1)
            if e[0] != "c":
                raise Unreadable(f"vector declaration {t[:8]}")
            items = e[2][0][1] if len(e[2]) == 1 and e[2][0][0] == "t" else e[2]
            names = []
            for x in items:
                if x[0] != "i":
                    raise Unreadable(f"array member {x!r}")
                use(x[1], "array " + e[1])
                names.append(x[1])
            m["arrays"][e[1]] = names
            declared.add(e[1])
        elif len(t) >= 3 and t[0][0] == "id" and t[1][1] == "=":
            e, _ = parse_expr(t, 2)
            if head == "DK3P_DI.particle_masses":
                if e[0] != "t" or any(x[0] != "i" for x in e[1]):
                    raise Unreadable(f"particle_masses {e!r}"[:200])
                m["masses"] = [x[1] for x in e[1]]
                for x in m["masses"]:
                    use(x, "particle_masses")
                seen_masses = True
            else:
                use_all([e], "assignment to " + head)
                m["other_statements"].append(head)
        elif head is not None and head.endswith(".push_back"):
            e, _ = parse_expr(t, 0)
            if e[0] != "c" or len(e[2]) != 1:
                raise Unreadable(f"push_back statement {t[:6]}")
            arg = e[2][0]
            target = head[: -len(".push_back")]
            if target == "spin_factor_list":
                if "sf" in pend:
                    raise Unreadable("two spin-factor lists without an amplitude in between")
                pend["sf"] = _unwrap_vector(arg)
                com = [c[2:].strip() for c in coms if c.startswith("//") and not re.fullmatch(r"//\s*Line \d+\s*", c)]
                pend["comment"] = com[-1] if com else None
            elif target == "line_factor_list":
                if "ls" in pend:
                    raise Unreadable("two lineshape lists without an amplitude in between")
                pend["ls"] = _unwrap_vector(arg)
            elif target == "amplitudes_list":
                if not ("sf" in pend and "ls" in pend):
                    raise Unreadable("amplitude block without spin factors / lineshapes")
                use_all(pend["sf"] + pend["ls"] + [arg], "amplitude block")
                m["amps"].append({"sf": pend["sf"], "ls": pend["ls"], "amp": arg, "comment": pend.get("comment"), "registered": False})
                pend = {}
            elif target == "DK3P_DI.amplitudes_B":
                if not (arg[0] == "c" and arg[1] == "amplitudes_list.back" and m["amps"]):
                    raise Unreadable(f"registration statement {arg!r}"[:200])
                m["amps"][-1]["registered"] = True
            else:
                m["other_statements"].append(head)
        else:
            m["other_statements"].append(" ".join(v for _, v in t[:4]))
    if pend:
        raise Unreadable("spin-factor / lineshape list without its amplitude at the end of the text")
    if not seen_masses and not m["amps"] and not m["consts"]:
        raise Unreadable("neither constants, particle masses nor amplitudes found")
    env = {n: ("var", q) for n, (q, _) in m["resvars"].items()}
    env.update({n: ("var", q) for n, (q, _, _) in m["pars"].items()})
    env.update({n: [env.get(x, x) for x in items] for n, items in m["arrays"].items()})
    out = dict(m)
    out["amps"] = []
    for a in m["amps"]:
        amp = norm_cpp(a["amp"], env)
        if not (isinstance(amp, tuple) and amp[0] == "Amplitude" and len(amp[1]) == 6):
            raise Unreadable(f"unexpected Amplitude expression {amp!r}")
        name, cre, cim, lref, sref, n = amp[1]
        coeffs = {}
        for key, c in (("r", cre), ("i", cim)):
            if not (isinstance(c, tuple) and c[0] == "mkvar" and len(c[1]) == 4):
                raise Unreadable(f"unexpected coefficient {c!r}")
            coeffs[key] = {"name": c[1][0], "fixed": bool(c[1][1]), "value": c[1][2], "error": c[1][3]}
        out["amps"].append({"name": name, "n": int(n), "coeffs": coeffs, "sf": [norm_sf(x) for x in (norm_cpp(e, env) for e in a["sf"])],
                            "ls": [norm_ls(x) for x in (norm_cpp(e, env) for e in a["ls"])], "comment": a["comment"], "registered": a["registered"],
                            "refs": (lref, sref)})
    out["parameters"] = {q: {"value": v, "error": e, "fixed": e is None} for _, (q, v, e) in m["pars"].items()}
    out["resonance_variables"] = {q: v for _, (q, v) in m["resvars"].items()}
    out["constants"] = dict(m["consts"])
    out["arrays_resolved"] = {n: [x[1] if isinstance(x, tuple) else x for x in env[n]] for n in m["arrays"]}
    return out


def norm_cpp(e, env):
    k = e[0]
    if k == "s":
        return e[1]
    if k == "n":
        return e[1]
    if k == "i":
        n = e[1]
        if n in ("true", "false"):
            return n == "true"
        if n in env:
            return env[n]
        return n.replace("Lineshapes.FOCUS.Mod.", "Lineshapes.FocusMod.")
    if k == "c":
        if e[1] == "Lineshapes.spline_t":
            return tuple(norm_cpp(a, env) for a in e[2])
        return (e[1], [norm_cpp(a, env) for a in e[2]])
    if k == "t":
        return [norm_cpp(a, env) for a in e[1]]
    raise Unreadable(f"node {e!r}")


def norm_sf(x):
    """('SpinFactor', ['SF', 'SF_4Body.KIND', a, b, c, d]) -> (kind, perm)"""
    if not (isinstance(x, tuple) and x[0] == "SpinFactor" and len(x[1]) >= 3):
        raise Unreadable(f"unexpected spin-factor entry {x!r}")
    return (str(x[1][1]).replace("SF_4Body.", ""), tuple(int(v) for v in x[1][2:]))


def _v(x):
    return x[1] if isinstance(x, tuple) and len(x) == 2 and x[0] == "var" else x


def norm_ls(x):
    """Lineshape entry -> dict(kind, name, M, W, L, mass, ff, extras)"""
    if not (isinstance(x, tuple) and isinstance(x[0], str) and x[0].startswith("Lineshapes.")):
        raise Unreadable(f"unexpected lineshape entry {x!r}")
    kind = x[0].split(".", 1)[1]
    a = x[1]
    if kind == "RBW":
        name, M, W, L, mass, ff = a
        extras = ()
    elif kind == "GSpline":
        name, M, W, L, mass, ff, radius, arr, spl = a
        extras = (radius, tuple(_v(y) for y in arr) if isinstance(arr, list) else arr, tuple(spl))
    elif kind == "kMatrix":
        name, pterm, ispole, sA0, sA, s0p, s0s, fsc, isp, M, W, L, mass, ff, radius = a
        extras = (pterm, bool(ispole), _v(sA0), _v(sA), _v(s0p), _v(s0s), tuple(_v(y) for y in fsc) if isinstance(fsc, list) else fsc,
                  tuple(_v(y) for y in isp) if isinstance(isp, list) else isp, radius)
    elif kind == "FOCUS":
        name, mod, M, W, L, mass, ff, radius = a
        extras = (str(mod), radius)
    else:
        raise Unreadable(f"unknown lineshape kind {kind}")
    return {"kind": kind, "name": name, "M": _v(M), "W": _v(W), "L": L, "mass": mass, "ff": ff, "extras": extras}


# --------------------------------------------------------------------------------------------------
# recording stand-in for the goofit module


class _Rec:
    def __init__(self, kind, calls):
        self.kind = kind
        self._calls = calls

    def __call__(self, *a, **k):
        r = ("c", self.kind, list(a), dict(k))
        self._calls.append(r)
        return r

    def __getattr__(self, n):
        if n.startswith("__"):
            raise AttributeError(n)
        return _Rec(self.kind + "." + n, self._calls)

    def __repr__(self):
        return f"<{self.kind}>"


class _DecayInfo:
    """Stand-in for goofit.DecayInfo4: remembers how many API calls had been made when the masses were assigned."""

    _calls = None
    _mark = None

    def __setattr__(self, n, v):
        if n == "particle_masses" and _DecayInfo._calls is not None and _DecayInfo._mark is None:
            _DecayInfo._mark = len(_DecayInfo._calls)
        object.__setattr__(self, n, v)


def _py_layout(text):
    """From the syntax tree and the comment tokens (not from the line layout): the names in the particle-mass
    assignment and, per spin-factor statement, the last comment in front of it that is not a 'Line N' marker."""
    import ast  # noqa: PLC0415
    import io  # noqa: PLC0415
    import tokenize  # noqa: PLC0415

    tree = ast.parse(text)
    masses = None
    sf_lines = []
    ends = []
    for st in tree.body:
        ends.append((st.lineno, st.end_lineno))
        if isinstance(st, ast.Assign) and len(st.targets) == 1 and isinstance(st.targets[0], ast.Attribute) and st.targets[0].attr == "particle_masses":
            if isinstance(st.value, ast.Tuple | ast.List):
                masses = [e.id if isinstance(e, ast.Name) else ast.unparse(e) for e in st.value.elts]
        if isinstance(st, ast.Expr) and isinstance(st.value, ast.Call) and isinstance(st.value.func, ast.Attribute) \
                and isinstance(st.value.func.value, ast.Name) and st.value.func.value.id == "spin_factor_list":
            sf_lines.append(st.lineno)
    coms = [(t.start[0], t.string[1:].strip()) for t in tokenize.generate_tokens(io.StringIO(text).readline) if t.type == tokenize.COMMENT]
    comments = []
    for ln in sf_lines:
        prev_end = max([e for s0, e in ends if e < ln], default=0)
        mine = [c for l0, c in coms if prev_end < l0 < ln and not re.fullmatch(r"Line \d+", c)]
        comments.append(mine[-1] if mine else None)
    return masses, comments


def run_py(text, preseed=None):
    """Execute the generated Python against the stand-in.  Returns the abstract model; NameError & co. propagate."""
    calls = []
    g = types.ModuleType("goofit")
    names = ["Variable", "Lineshapes", "FF", "SpinFactor", "SF_4Body", "Amplitude"]
    for n in names:
        setattr(g, n, _Rec(n, calls))
    g.DecayInfo4 = _DecayInfo
    for x in MASS_SYMS:
        setattr(g, x, x)
    g.__all__ = [*names, *MASS_SYMS, "DecayInfo4"]
    old = sys.modules.get("goofit")
    sys.modules["goofit"] = g
    _DecayInfo._calls, _DecayInfo._mark = calls, None
    try:
        ns = dict(preseed or {})
        code = compile(text, "<generated goofit python>", "exec")
        exec(code, ns)  # noqa: S102
    finally:
        mark = _DecayInfo._mark
        _DecayInfo._calls = None
        if old is None:
            del sys.modules["goofit"]
        else:
            sys.modules["goofit"] = old
    m = {"event": None, "constants": {}, "resonance_variables": {}, "parameters": {}, "amps": [], "arrays_resolved": {}}
    ev = re.search(r"Event type: (.*)", text)
    m["event"] = ev.group(1).strip() if ev else None
    di = ns.get("DK3P_DI")
    m["masses_values"] = list(getattr(di, "particle_masses", ()) or ())
    m["amplitudes_assigned"] = getattr(di, "amplitudes", None) is ns.get("amplitudes_list") and ns.get("amplitudes_list") is not None
    m["masses"], comments = _py_layout(text)
    pre = set(preseed or {})
    where = {id(c): i for i, c in enumerate(calls)}
    for name, v in ns.items():
        if name.startswith("__") or name in pre:
            continue
        if isinstance(v, float | int) and not isinstance(v, bool):
            m["constants"][name] = float(v)
        elif isinstance(v, tuple) and len(v) == 4 and v[1] == "Variable" and id(v) in where:
            args = v[2]
            if mark is not None and where[id(v)] < mark and len(args) == 2:
                m["resonance_variables"][args[0]] = float(args[1])
            else:
                m["parameters"][args[0]] = {"value": float(args[1]), "error": float(args[2]) if len(args) > 2 else None, "fixed": len(args) <= 2}
        elif isinstance(v, list) and v and all(isinstance(x, tuple) and len(x) == 4 and x[1] == "Variable" for x in v) and name not in ("amplitudes_list",):
            m["arrays_resolved"][name] = [x[2][0] for x in v]
    amps = ns.get("amplitudes_list") or []
    sfl, lfl = ns.get("spin_factor_list") or [], ns.get("line_factor_list") or []
    for idx, a in enumerate(amps):
        if not (isinstance(a, tuple) and a[1] == "Amplitude" and len(a[2]) == 6):
            raise Unreadable(f"unexpected Amplitude record {a!r}")
        name, cre, cim, lref, sref, n = a[2]
        coeffs = {}
        for key, c in (("r", cre), ("i", cim)):
            if not (isinstance(c, tuple) and c[1] == "Variable"):
                raise Unreadable(f"unexpected coefficient {c!r}")
            args = c[2]
            coeffs[key] = {"name": args[0], "fixed": len(args) == 2, "value": float(args[1]), "error": float(args[2]) if len(args) > 2 else None,
                           "limits": tuple(args[3:]) if len(args) > 3 else None}
        bare = [nm for nm, ref in (("spin factors", sref), ("lineshapes", lref)) if isinstance(ref, tuple) and len(ref) == 4 and ref[0] == "c"]
        if "spin factors" in bare:
            sref = [sref]
        if "lineshapes" in bare:
            lref = [lref]
        m["amps"].append({"name": name, "n": int(n), "coeffs": coeffs, "bare": bare, "sf": [norm_sf(norm_py(x)) for x in sref], "ls": [norm_ls(norm_py(x)) for x in lref],
                          "comment": comments[idx] if idx < len(comments) else None,
                          "own_lists": (idx < len(lfl) and lref is lfl[idx]) and (idx < len(sfl) and sref is sfl[idx])})
    m["n_variable_calls"] = sum(1 for c in calls if c[1] == "Variable")
    m["n_api_calls"] = len(calls)
    return m


def norm_py(v):
    if isinstance(v, tuple) and len(v) == 4 and v[0] == "c":
        if v[1] == "Variable":
            return ("var", v[2][0])
        return (v[1], [norm_py(a) for a in v[2]])
    if isinstance(v, list):
        return [norm_py(a) for a in v]
    if isinstance(v, tuple):
        return tuple(norm_py(a) for a in v)
    if isinstance(v, _Rec):
        return v.kind
    if isinstance(v, bool):
        return v
    if isinstance(v, int):
        return float(v)
    return v
