"""Readers for the generated GooFit code: the C++ text is *read* (section split + a tiny expression reader), the
Python text is *executed* against a recording stand-in for the `goofit` module -- so "valid Python that runs
against the API" and "every symbol declared before use" (no NameError) are decided by that execution.
Both produce the same abstract model, which C18 compares with its oracle and C19 compares across languages.
"""
from __future__ import annotations

import itertools
import re
import sys
import types

TOK = re.compile(r'\s*(?:(?P<str>"(?:[^"\\]|\\.)*")|(?P<num>[-+]?(?:\d+\.?\d*|\.\d+)(?:[eE][-+]?\d+)?)'
                 r'|(?P<id>(?:new\s+)?[A-Za-z_][\w]*(?:(?:::|\.)[A-Za-z_][\w]*)*(?:<[^()]*?>)?)|(?P<p>[(){}\[\],;=*]))')


class Unreadable(Exception):
    pass


def tokens(s):
    i = 0
    out = []
    while i < len(s):
        m = TOK.match(s, i)
        if not m:
            if s[i:].strip() == "":
                break
            raise Unreadable(f"cannot tokenise {s[i:i + 40]!r}")
        i = m.end()
        k = m.lastgroup
        out.append((k, m.group(k)))
    return out


def parse_expr(t, i):
    if i >= len(t):
        raise Unreadable("unexpected end of expression")
    k, v = t[i]
    if k == "str":
        return ("s", v[1:-1]), i + 1
    if k == "num":
        return ("n", float(v)), i + 1
    if k == "id":
        name = re.sub(r"^new\s+", "", v).replace("::", ".")
        name = re.sub(r"<.*>$", "", name)
        if i + 1 < len(t) and t[i + 1][1] in "({":
            close = {"(": ")", "{": "}"}[t[i + 1][1]]
            args, i = parse_list(t, i + 2, close)
            return ("c", name, args), i
        return ("i", name), i + 1
    if k == "p" and v in "({[":
        close = {"(": ")", "{": "}", "[": "]"}[v]
        args, i = parse_list(t, i + 1, close)
        return ("t", args), i
    raise Unreadable(f"cannot read expression at {t[i:i + 5]}")


def parse_list(t, i, close):
    args = []
    while True:
        if i >= len(t):
            raise Unreadable("unclosed bracket")
        if t[i][1] == close:
            return args, i + 1
        e, i = parse_expr(t, i)
        args.append(e)
        if i < len(t) and t[i][1] == ",":
            i += 1


MASS_SYMS = [f"M_{a}{b}" for a, b in itertools.permutations("1234", 2)] + [f"M_{a}{b}_{c}" for a, b, c in itertools.permutations("1234", 3)]
CPP_VOCAB = {"DK3P_DI", "mkvar", "fptype", "true", "false", "line_factor_list", "spin_factor_list", "amplitudes_list", "Variable", "Amplitude",
             "SpinFactor", "Lineshape", "std", "vector", "constexpr", "new"} | set(MASS_SYMS)


def _idents(expr, acc):
    k = expr[0]
    if k == "i":
        acc.append(expr[1])
    elif k == "c":
        acc.append(("call", expr[1]))
        for a in expr[2]:
            _idents(a, acc)
    elif k == "t":
        for a in expr[1]:
            _idents(a, acc)


def read_cpp(text):
    """C++ output -> abstract model (+ 'undeclared': symbols used before / without declaration, in statement order)."""
    if "// Intro" not in text:
        raise Unreadable("no '// Intro' section")
    body = text[text.index("// Intro"):]
    m = {"consts": {}, "resvars": {}, "pars": {}, "arrays": {}, "amps": [], "event": None, "masses": None, "undeclared": [], "order": []}
    ev = re.search(r"// Event type: (.*)", body)
    m["event"] = ev.group(1).strip() if ev else None
    try:
        intro, rest = body.split("// Parameters", 1)
        pars, lines = rest.split("// Lines", 1)
    except ValueError as e:
        raise Unreadable("sections '// Parameters' / '// Lines' missing") from e
    declared = set()

    def use(name, where):
        head = name.split(".")[0]
        if name in declared or name in CPP_VOCAB or head in ("Lineshapes", "SF_4Body", "FF", "std", "line_factor_list", "spin_factor_list", "amplitudes_list", "DK3P_DI"):
            return
        m["undeclared"].append((name, where))

    for name, val in re.findall(r"constexpr fptype (\w+)\s*\{\s*([^}]*?)\s*\};", intro):
        m["consts"][name] = float(val)
        declared.add(name)
    for name, q, val in re.findall(r'Variable (\w+)\s*\{\s*"([^"]*)"\s*,\s*([^}]*?)\s*\};', intro):
        m["resvars"][name] = (q, float(val))
        declared.add(name)
    mm = re.search(r"DK3P_DI.particle_masses = \{(.*?)\};", intro)
    m["masses"] = mm.group(1).replace(" ", "").split(",") if mm else None
    for x in m["masses"] or []:
        use(x, "particle_masses")
    # parameters section, statement by statement (order matters for def-before-use)
    for stmt in re.finditer(r'(?:^\s*Variable (\w+) \{"([^"]*)", ([^}]*?) ?\};)|(?:std::vector<Variable>\s+(\w+) \{\{\n(.*?)\n\s*\}\};)', pars, re.M | re.S):
        if stmt.group(1):
            v = [float(x) for x in stmt.group(3).split(",")]
            m["pars"][stmt.group(1)] = (stmt.group(2), v[0], v[1] if len(v) > 1 else None)
            m["order"].append(stmt.group(1))
            declared.add(stmt.group(1))
        else:
            items = [x.strip().rstrip(",") for x in stmt.group(5).splitlines() if x.strip()]
            for x in items:
                use(x, "array " + stmt.group(4))
            m["arrays"][stmt.group(4)] = items
            declared.add(stmt.group(4))
    for blk in re.split(r"// Line \d+\n", lines)[1:]:
        sf = re.search(r"spin_factor_list.push_back\(std::vector<SpinFactor\*>\(\{\n(.*?)\n\s*\}\)\);", blk, re.S)
        lf = re.search(r"line_factor_list.push_back\(std::vector<Lineshape\*>\{\n(.*?)\n\s*\}\);", blk, re.S)
        am = re.search(r"amplitudes_list.push_back\((new Amplitude\{.*?\})\);", blk, re.S)
        if not (sf and lf and am):
            raise Unreadable("amplitude block without spin factors / lineshapes / amplitude")
        sfs, _ = parse_list(tokens(sf.group(1) + " )"), 0, ")")
        lfs, _ = parse_list(tokens(lf.group(1) + " )"), 0, ")")
        a, _ = parse_expr(tokens(am.group(1)), 0)
        acc = []
        for e in sfs + lfs + [a]:
            _idents(e, acc)
        for x in acc:
            if isinstance(x, tuple):
                use(x[1], "amplitude block")
            else:
                use(x, "amplitude block")
        comment = re.search(r"^\s*// (.*)$", blk, re.M)
        m["amps"].append({"sf": sfs, "ls": lfs, "amp": a, "comment": comment.group(1).strip() if comment else None,
                          "registered": "DK3P_DI.amplitudes_B.push_back(amplitudes_list.back());" in blk})
    env = {n: ("var", q) for n, (q, _) in m["resvars"].items()}
    env.update({n: ("var", q) for n, (q, _, _) in m["pars"].items()})
    env.update({n: [env.get(x, x) for x in items] for n, items in m["arrays"].items()})
    out = dict(m)
    out["amps"] = []
    for a in m["amps"]:
        amp = norm_cpp(a["amp"], env)
        if not (isinstance(amp, tuple) and amp[0] == "Amplitude" and len(amp[1]) == 6):
            raise Unreadable(f"unexpected Amplitude expression {amp!r}")
        name, cre, cim, lref, sref, n = amp[1]
        coeffs = {}
        for key, c in (("r", cre), ("i", cim)):
            if not (isinstance(c, tuple) and c[0] == "mkvar" and len(c[1]) == 4):
                raise Unreadable(f"unexpected coefficient {c!r}")
            coeffs[key] = {"name": c[1][0], "fixed": bool(c[1][1]), "value": c[1][2], "error": c[1][3]}
        out["amps"].append({"name": name, "n": int(n), "coeffs": coeffs, "sf": [norm_sf(x) for x in (norm_cpp(e, env) for e in a["sf"])],
                            "ls": [norm_ls(x) for x in (norm_cpp(e, env) for e in a["ls"])], "comment": a["comment"], "registered": a["registered"],
                            "refs": (lref, sref)})
    out["parameters"] = {q: {"value": v, "error": e, "fixed": e is None} for _, (q, v, e) in m["pars"].items()}
    out["resonance_variables"] = {q: v for _, (q, v) in m["resvars"].items()}
    out["constants"] = dict(m["consts"])
    out["arrays_resolved"] = {n: [x[1] if isinstance(x, tuple) else x for x in env[n]] for n in m["arrays"]}
    return out


def norm_cpp(e, env):
    k = e[0]
    if k == "s":
        return e[1]
    if k == "n":
        return e[1]
    if k == "i":
        n = e[1]
        if n in ("true", "false"):
            return n == "true"
        if n in env:
            return env[n]
        return n.replace("Lineshapes.FOCUS.Mod.", "Lineshapes.FocusMod.")
    if k == "c":
        if e[1] == "Lineshapes.spline_t":
            return tuple(norm_cpp(a, env) for a in e[2])
        return (e[1], [norm_cpp(a, env) for a in e[2]])
    if k == "t":
        return [norm_cpp(a, env) for a in e[1]]
    raise Unreadable(f"node {e!r}")


def norm_sf(x):
    """('SpinFactor', ['SF', 'SF_4Body.KIND', a, b, c, d]) -> (kind, perm)"""
    if not (isinstance(x, tuple) and x[0] == "SpinFactor" and len(x[1]) >= 3):
        raise Unreadable(f"unexpected spin-factor entry {x!r}")
    return (str(x[1][1]).replace("SF_4Body.", ""), tuple(int(v) for v in x[1][2:]))


def _v(x):
    return x[1] if isinstance(x, tuple) and len(x) == 2 and x[0] == "var" else x


def norm_ls(x):
    """Lineshape entry -> dict(kind, name, M, W, L, mass, ff, extras)"""
    if not (isinstance(x, tuple) and isinstance(x[0], str) and x[0].startswith("Lineshapes.")):
        raise Unreadable(f"unexpected lineshape entry {x!r}")
    kind = x[0].split(".", 1)[1]
    a = x[1]
    if kind == "RBW":
        name, M, W, L, mass, ff = a
        extras = ()
    elif kind == "GSpline":
        name, M, W, L, mass, ff, radius, arr, spl = a
        extras = (radius, tuple(_v(y) for y in arr) if isinstance(arr, list) else arr, tuple(spl))
    elif kind == "kMatrix":
        name, pterm, ispole, sA0, sA, s0p, s0s, fsc, isp, M, W, L, mass, ff, radius = a
        extras = (pterm, bool(ispole), _v(sA0), _v(sA), _v(s0p), _v(s0s), tuple(_v(y) for y in fsc) if isinstance(fsc, list) else fsc,
                  tuple(_v(y) for y in isp) if isinstance(isp, list) else isp, radius)
    elif kind == "FOCUS":
        name, mod, M, W, L, mass, ff, radius = a
        extras = (str(mod), radius)
    else:
        raise Unreadable(f"unknown lineshape kind {kind}")
    return {"kind": kind, "name": name, "M": _v(M), "W": _v(W), "L": L, "mass": mass, "ff": ff, "extras": extras}


# --------------------------------------------------------------------------------------------------
# recording stand-in for the goofit module


class _Rec:
    def __init__(self, kind, calls):
        self.kind = kind
        self._calls = calls

    def __call__(self, *a, **k):
        r = ("c", self.kind, list(a), dict(k))
        self._calls.append(r)
        return r

    def __getattr__(self, n):
        if n.startswith("__"):
            raise AttributeError(n)
        return _Rec(self.kind + "." + n, self._calls)

    def __repr__(self):
        return f"<{self.kind}>"


class _DecayInfo:
    pass


def run_py(text, preseed=None):
    """Execute the generated Python against the stand-in.  Returns the abstract model; NameError & co. propagate."""
    calls = []
    g = types.ModuleType("goofit")
    names = ["Variable", "Lineshapes", "FF", "SpinFactor", "SF_4Body", "Amplitude"]
    for n in names:
        setattr(g, n, _Rec(n, calls))
    g.DecayInfo4 = _DecayInfo
    for x in MASS_SYMS:
        setattr(g, x, x)
    g.__all__ = [*names, *MASS_SYMS, "DecayInfo4"]
    old = sys.modules.get("goofit")
    sys.modules["goofit"] = g
    try:
        ns = dict(preseed or {})
        code = compile(text, "<generated goofit python>", "exec")
        exec(code, ns)  # noqa: S102
    finally:
        if old is None:
            del sys.modules["goofit"]
        else:
            sys.modules["goofit"] = old
    m = {"event": None, "constants": {}, "resonance_variables": {}, "parameters": {}, "amps": [], "arrays_resolved": {}}
    ev = re.search(r"#Event type: (.*)", text)
    m["event"] = ev.group(1).strip() if ev else None
    di = ns.get("DK3P_DI")
    m["masses_values"] = list(getattr(di, "particle_masses", ()) or ())
    m["amplitudes_assigned"] = getattr(di, "amplitudes", None) is ns.get("amplitudes_list") and ns.get("amplitudes_list") is not None
    mm = re.search(r"DK3P_DI.particle_masses = \((.*?)\)", text)
    m["masses"] = mm.group(1).replace(" ", "").split(",") if mm else None
    try:
        intro = text[text.index("#Intro"): text.index("# Parameters")]
        pars = text[text.index("# Parameters"): text.index("# Lines")]
    except ValueError as e:
        raise Unreadable("sections '#Intro' / '# Parameters' / '# Lines' missing") from e
    for name, val in re.findall(r"^(\w+)\s*=\s*([-+0-9.eE]+)\s*$", intro, re.M):
        if name in ns and isinstance(ns[name], float | int):
            m["constants"][name] = float(val)
    for name, q in re.findall(r'^(\w+)\s*=\s*Variable\("([^"]*)"', intro, re.M):
        v = ns.get(name)
        if isinstance(v, tuple) and v[1] == "Variable":
            m["resonance_variables"][q] = float(v[2][1])
    for name, q in re.findall(r'^(\w+)\s*=\s*Variable\("([^"]*)"', pars, re.M):
        v = ns.get(name)
        if isinstance(v, tuple) and v[1] == "Variable":
            args = v[2]
            m["parameters"][q] = {"value": float(args[1]), "error": float(args[2]) if len(args) > 2 else None, "fixed": len(args) <= 2}
    for name, v in ns.items():
        if isinstance(v, list) and v and all(isinstance(x, tuple) and len(x) == 4 and x[1] == "Variable" for x in v) and name not in ("amplitudes_list",):
            m["arrays_resolved"][name] = [x[2][0] for x in v]
    amps = ns.get("amplitudes_list") or []
    sfl, lfl = ns.get("spin_factor_list") or [], ns.get("line_factor_list") or []
    comments = re.findall(r"^# Line \d+\n#(.*)$", text, re.M)
    for idx, a in enumerate(amps):
        if not (isinstance(a, tuple) and a[1] == "Amplitude" and len(a[2]) == 6):
            raise Unreadable(f"unexpected Amplitude record {a!r}")
        name, cre, cim, lref, sref, n = a[2]
        coeffs = {}
        for key, c in (("r", cre), ("i", cim)):
            if not (isinstance(c, tuple) and c[1] == "Variable"):
                raise Unreadable(f"unexpected coefficient {c!r}")
            args = c[2]
            coeffs[key] = {"name": args[0], "fixed": len(args) == 2, "value": float(args[1]), "error": float(args[2]) if len(args) > 2 else None,
                           "limits": tuple(args[3:]) if len(args) > 3 else None}
        bare = [nm for nm, ref in (("spin factors", sref), ("lineshapes", lref)) if isinstance(ref, tuple) and len(ref) == 4 and ref[0] == "c"]
        if "spin factors" in bare:
            sref = [sref]
        if "lineshapes" in bare:
            lref = [lref]
        m["amps"].append({"name": name, "n": int(n), "coeffs": coeffs, "bare": bare, "sf": [norm_sf(norm_py(x)) for x in sref], "ls": [norm_ls(norm_py(x)) for x in lref],
                          "comment": comments[idx].strip() if idx < len(comments) else None,
                          "own_lists": (idx < len(lfl) and lref is lfl[idx]) and (idx < len(sfl) and sref is sfl[idx])})
    m["n_variable_calls"] = sum(1 for c in calls if c[1] == "Variable")
    m["n_api_calls"] = len(calls)
    return m


def norm_py(v):
    if isinstance(v, tuple) and len(v) == 4 and v[0] == "c":
        if v[1] == "Variable":
            return ("var", v[2][0])
        return (v[1], [norm_py(a) for a in v[2]])
    if isinstance(v, list):
        return [norm_py(a) for a in v]
    if isinstance(v, tuple):
        return tuple(norm_py(a) for a in v)
    if isinstance(v, _Rec):
        return v.kind
    if isinstance(v, bool):
        return v
    if isinstance(v, int):
        return float(v)
    return v
