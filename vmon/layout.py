"""Gap-level, semantics-preserving rewrites of .dec text (C02).

A text is cut by the lossless lexer of declang into significant tokens and the gaps between them; every
gap is typed by what the language allows there; a rewrite replaces gaps (and doubles semicolons) by other
members of the same class.  The same code serves generated texts and the shipped corpus.
"""
from __future__ import annotations

from . import declang as L

OPS = ["space", "comment", "blank", "indent", "wrap", "comma", "semis"]


def segments(text, models, user_models=()):
    """-> items: ('T', token, role) / ('G', pieces, gaptype).  Concatenation reproduces the text."""
    lx = L.lex(text)
    modelset = set(models) | set(user_models)
    sig = [s for k, s in lx if k == "TOK"]
    mal = {sig[i + 1] for i, t in enumerate(sig) if t == "ModelAlias" and i + 1 < len(sig)}
    items = []
    gap = []
    state = "TOP"
    in_block = False
    in_params = False
    line_first = True
    for k, s in lx:
        if k != "TOK":
            gap.append((k, s))
            continue
        has_nl = any(kk == "NL" for kk, _ in gap)
        if not items:
            gt = "BOF"
        elif in_params and s != ";":
            gt = "PARAM"
        elif s == ";" and in_params:
            gt = "PARAM_PRESEMI"
        elif s == ";":
            gt = "PRESEMI"
        elif has_nl:
            gt = "LINE_END"
        elif s in ("=", ":", ",") or (items and items[-1][1] in ("=", ":", ",")):
            gt = "PUNCT"
        else:
            gt = "INLINE"
        items.append(("G", gap, gt))
        gap = []
        role = "word"
        if in_params:
            if s == ";":
                in_params = False
                state = "SEMIS"
                role = "semi"
            elif s == ",":
                role = "comma"
        elif state == "SEMIS" and s == ";":
            role = "semi"
        else:
            if state == "SEMIS":
                state = "LINESTART"
            if has_nl or items[-1][2] == "BOF":
                line_first = True
            if s == ";":
                role = "semi"
                state = "SEMIS"
            elif line_first:
                line_first = False
                if s == "Decay":
                    in_block = True
                    state = "HEAD"
                elif s == "Enddecay":
                    in_block = False
                    state = "TOPLINE"
                elif s == "ModelAlias":
                    state = "MA_NAME"
                elif in_block:
                    state = "DLINE"
                else:
                    state = "TOPLINE"
                    role = "kw"
            elif state == "MA_NAME":
                state = "MA_MODEL"
            elif state == "MA_MODEL":
                if s in modelset or s in mal:
                    in_params = True
                    role = "model"
            elif state == "DLINE":
                if s == "PHOTOS":
                    role = "photos"
                elif s in modelset or s in mal:
                    in_params = True
                    role = "model"
        items.append(("T", s, role))
    items.append(("G", gap, "EOF"))
    return items


def render(items):
    out = []
    for it in items:
        out.append(it[1] if it[0] == "T" else "".join(s for _, s in it[1]))
    return "".join(out)


COMMENTS = ["", " c", " Enddecay", " ; End", "# x ;;", " Decay A", " PHSP", " End", "\tyesPhotos", " 0.5 a b PHSP;", " CDecay B0",
            " <-- End of the modes", " see C:\\decfiles\\", " continued \\", " \\", " old:\u2028Define dm 9.9", " page\x0cyesPhotos", " x\x85Alias QQ pi+", " sep\x1cCDecay B0", " ps\u2029End", " vt\x0bnoPhotos"]


def rewrite(items, rng, ops, p=0.3, crlf=None, stats=None):
    """New items with gaps rewritten.  crlf: None (keep), False (all LF), True (all CRLF), 'mixed'."""
    out = []

    def ws():
        return rng.choice([" ", "  ", "\t", " \t ", "    "])

    def com():
        return "#" + rng.choice(COMMENTS)

    def nl():
        if crlf == "mixed":
            return rng.choice(["\n", "\r\n"])
        return "\r\n" if crlf else "\n"

    def count(k):
        if stats is not None:
            stats[k] = stats.get(k, 0) + 1

    for idx, it in enumerate(items):
        if it[0] == "T":
            s = it[1]
            if it[2] == "semi" and "semis" in ops and rng.random() < p:
                s = rng.choice([";;", "; ;", ";\t;;"])
                count("R8-semicolons")
            out.append(("T", s, it[2]))
            continue
        pieces, gt = it[1], it[2]
        force = crlf is not None and any(k == "NL" for k, _ in pieces)
        if rng.random() > p and not force:
            out.append(it)
            continue
        txt = "".join(s for _, s in pieces)
        nxt = items[idx + 1] if idx + 1 < len(items) else None
        prv = items[idx - 1] if idx > 0 else None
        nxt_end = nxt is not None and nxt[0] == "T" and nxt[1].startswith("End") and nxt[1] not in ("Enddecay", "End")
        new = None
        if gt == "INLINE":
            if "space" in ops:
                new = ws()
                count("R4-spacing")
        elif gt in ("PUNCT", "PRESEMI"):
            if "space" in ops:
                new = rng.choice(["", ws()])
                count("R4-spacing")
        elif gt == "LINE_END":
            keepcom = [s for k, s in pieces if k == "COM"]
            if "comment" in ops and rng.random() < 0.5:
                keepcom = [] if rng.random() < 0.5 else [com()]
                count("R1-comment")
            s = rng.choice(["", ws()]) if "space" in ops else ""
            if keepcom:
                s += keepcom[0]
            s += nl()
            for c in keepcom[1:]:
                s += (ws() if rng.random() < 0.5 else "") + c + nl()
            if "blank" in ops:
                k = rng.choice([0, 0, 1, 2])
                for _ in range(k):
                    s += rng.choice(["", ws()]) + (com() if ("comment" in ops and rng.random() < 0.3) else "") + nl()
                if k:
                    count("R2-blank-lines")
            if "indent" in ops:
                s += rng.choice(["", ws()])
                count("R3-indent")
            elif pieces and pieces[-1][0] == "WS":
                s += pieces[-1][1]
            new = s
        elif gt == "PARAM":
            if (nxt and nxt[0] == "T" and nxt[2] == "comma") or (prv and prv[0] == "T" and prv[2] == "comma"):
                new = None
            else:
                choice = rng.random()
                if "wrap" in ops and choice < 0.4 and not nxt_end:
                    new = rng.choice(["", ws()]) + (com() if ("comment" in ops and rng.random() < 0.3) else "") + nl() + ws()
                    count("R6-wrap")
                elif "comma" in ops and choice < 0.7 and prv and prv[2] != "model":
                    new = rng.choice([",", " , ", ", "])
                    count("R7-comma")
                elif "space" in ops:
                    new = ws()
                    count("R4-spacing")
        elif gt == "PARAM_PRESEMI":
            if prv[2] != "model":
                if "wrap" in ops and rng.random() < 0.3:
                    new = nl() + ws()
                    count("R6-wrap-before-semicolon")
                elif "space" in ops:
                    new = rng.choice(["", ws()])
            elif "space" in ops:
                new = rng.choice(["", ws()])
        elif gt == "BOF":
            new = txt
            if "indent" in ops and rng.random() < 0.5 and not txt:
                new = ws()
                count("R3-indent-first-line")
            if "blank" in ops and rng.random() < 0.5:
                new = nl() + (com() + nl() if "comment" in ops else "") + new
                count("R2-leading-blank")
        elif gt == "EOF":
            new = txt
        if new is None:
            if force:
                new = txt
            else:
                out.append(it)
                continue
        if crlf is not None and crlf != "mixed":
            new = new.replace("\r\n", "\n")
            if crlf:
                new = new.replace("\n", "\r\n")
        out.append(("G", [("X", new)], gt))
    return out


def top_level_boundaries(items):
    """Indices i of LINE_END gaps that separate two top-level statements (outside Decay blocks and ModelAlias models)."""
    out = []
    in_block = False
    in_model = False
    for i, it in enumerate(items):
        if it[0] == "T":
            if it[2] == "word" and it[1] == "Decay" and (i < 2 or items[i - 1][2] in ("LINE_END", "BOF")):
                in_block = True
            elif it[1] == "Enddecay":
                in_block = False
            elif it[1] == "ModelAlias":
                in_model = True
            elif it[2] == "semi":
                in_model = False
        elif it[2] == "LINE_END" and not in_block and not in_model:
            out.append(i)
    return out


def decay_line_boundaries(items):
    """Indices i of LINE_END gaps *inside* Decay blocks: after the `Decay M` line and after the terminating semicolon(s) of a decay line."""
    out = []
    in_block = False
    after = None
    for i, it in enumerate(items):
        if it[0] == "T":
            if it[2] == "word" and it[1] == "Decay" and (i < 2 or items[i - 1][2] in ("LINE_END", "BOF")):
                in_block, after = True, "decay"
            elif it[1] == "Enddecay":
                in_block = False
            elif it[2] == "semi":
                after = "semi"
            elif after == "decay":
                after = "mother"
            else:
                after = None
        elif it[2] == "LINE_END" and in_block and after in ("semi", "mother"):
            out.append(i)
    return out
