"""Name tables and the conjugation oracle, read from the raw data files of the installed `particle`
package with the csv module -- not through Particle.invert() nor through particle's BiMap classes, which
is what the code under test uses.  Trusted base: the data tables themselves."""
from __future__ import annotations

import csv
import functools
import os


def _datadir():
    import particle  # noqa: PLC0415

    return os.path.join(os.path.dirname(particle.__file__), "data")


def _rows(fn):
    with open(os.path.join(_datadir(), fn), encoding="utf-8") as f:
        lines = [ln for ln in f if not ln.startswith("#")]
    return [{k.strip(): (v or "").strip() for k, v in r.items()} for r in csv.DictReader(lines)]


@functools.lru_cache(maxsize=None)
def tables():
    evt_id = {}          # EvtGen name -> PDG ID
    id_evt = {}
    for r in _rows("pdgid_to_evtgenname.csv"):
        evt_id[r["STR"]] = int(r["PDGID"])
        id_evt[int(r["PDGID"])] = r["STR"]
    pdg2evt, evt2pdg, pdg_id = {}, {}, {}
    for r in _rows("conversions.csv"):
        pdg2evt[r["PDGNAME"]] = r["EVTGENNAME"]
        pdg_id[r["PDGNAME"]] = int(r["PDGID"])
        evt2pdg.setdefault(r["EVTGENNAME"], []).append(r["PDGNAME"])
    # the particle table that Particle() loads by default: newest particleNNNN.csv (+ nuclei)
    files = sorted(f for f in os.listdir(_datadir()) if f.startswith("particle20") and f.endswith(".csv"))
    anti, charge3, width = {}, {}, {}
    for r in _rows(files[-1]):
        i = int(r["ID"])
        anti[i] = int(r["Anti"])
        charge3[i] = int(r["Charge"])
        width[i] = float(r["Width"])
    return {"evt_id": evt_id, "id_evt": id_evt, "pdg2evt": pdg2evt, "evt2pdg": evt2pdg, "pdg_id": pdg_id,
            "anti": anti, "charge3": charge3, "width": width}


def evtgen_names():
    return list(tables()["evt_id"])


def pdg_names():
    return list(tables()["pdg2evt"])


def wrapped(n):
    return f"ChargeConj({n})"


def conj(n):
    """EvtGen-name conjugation as the properties state it: the name carrying the negated PDG ID; the same name
    for a self-conjugate particle; otherwise marked as unknown (never guessed)."""
    t = tables()
    i = t["evt_id"].get(n)
    if i is not None:
        if -i in t["id_evt"] and i != 0:
            return t["id_evt"][-i]
        if i in t["anti"] and (t["anti"][i] == 0 or (t["anti"][i] == 2 and t["charge3"][i] == 0)):
            return n
    return wrapped(n)


def kind(n):
    t = tables()
    i = t["evt_id"].get(n)
    if i is None:
        return "unknown-label"
    c = conj(n)
    if c == n:
        return "self-conjugate"
    if c == wrapped(n):
        return "in-table-no-conjugate"
    return "has-antiparticle"


def conj_pdg(n):
    """PDG-name route: PDG name -> EvtGen name -> conjugate -> PDG name; any missing link => wrapped PDG name.
    Returns None where the tables themselves are ambiguous (several PDG names for one EvtGen name)."""
    t = tables()
    e = t["pdg2evt"].get(n)
    if e is None:
        return wrapped(n)
    c = conj(e)
    back = t["evt2pdg"].get(c)
    if not back:
        return wrapped(n)
    if len(back) > 1:
        return None
    return back[0]


def antiparticle_pairs():
    """[(name, conjugate)] for EvtGen names with a distinct known antiparticle."""
    return [(n, conj(n)) for n in evtgen_names() if kind(n) == "has-antiparticle"]


def self_conjugates():
    return [n for n in evtgen_names() if kind(n) == "self-conjugate"]


def ref_width_gev(evt_name):
    """Reference width in GeV of the particle behind an EvtGen name (table is in MeV); None if not in the table."""
    t = tables()
    i = t["evt_id"].get(evt_name)
    if i is None or i not in t["width"]:
        return None
    return t["width"][i] / 1000.0
