"""C01 -- decay tables read from a .dec file are exactly what the file states.

W-gen: quota-driven generated files (abstract model -> text); the oracle is the abstract model itself
(declang.expected), so oracle and parser share nothing but the definition of the language.
W-corpus: the shipped master files, tests/data/*.dec and the 135 model smoke files against the
independent reference reader (declang.read).  Observation through the public queries the property
names (list_decay_mother_names, number_of_decays, list_decay_modes, build_decay_chains with all
daughters stable, print_decay_modes for the PHOTOS flag) and, for every line of every table, through
the per-line detail function.
"""
from __future__ import annotations

import glob
import os

from .. import core, decgen, snapshot
from .. import declang as L

RULE = ("one case per generated file (abstract statement list rendered to text) or corpus file; non-trivial = at least one decay line with "
        ">= 1 daughter; distinct by hash of the text")
ANCHORS = ["decaylanguage.dec.dec:DecFileParser.parse", "decaylanguage.dec.dec:DecFileParser._check_parsed_decays", "decaylanguage.dec.dec:get_decays",
           "decaylanguage.dec.dec:DecFileParser._decay_mode_details", "decaylanguage.dec.dec:get_branching_fraction",
           "decaylanguage.dec.dec:get_final_state_particle_names", "decaylanguage.dec.dec:get_model_name", "decaylanguage.dec.dec:get_model_parameters",
           "decaylanguage.dec.dec:DecayModelParamValueReplacement._replacement"]
WORKERS = {"quick": 4, "thorough": 16}
WTESTS = {"groups": ['parse'], "tests": ['tests/dec', 'tests/decay/test_viewer.py']}
REQUIRED = {"alias-with-its-own-block-next-to-the-block-of-its-particle": 5, **{f"char:{c}": 10 for c in L.ALPHABET_EXTRA}, **{f"bf-literal:{f}": 3 for f in ["1", "1.", ".25", "-0.8", "2E-3", "20.e-2", "+0.125"]},
            **{f"param-literal:{f}": 3 for f in ["1", "1.", ".5", "-0.8", "+3", "20.e12", "2E-4"]},
            "word-param-that-python-float-would-read": 10, "line-with-model-alias+photos": 5, "line-with-model-alias": 10, "label-continuing-a-model-name": 10, "copydecay-onto-a-name-with-its-own-block": 5, "file-constructor-two-files-first-without-final-newline": 10, "returned-values-edited-then-asked-again": 20, "models-all-published": 1, "empty-block": 10, "repeated-mother-different-body": 10, "repeated-mother-identical-body": 10,
            "tables>=4": 10, "tables>=8": 3, "line-without-daughters": 10, "photos-mixed-in-one-table": 10, "lines>=8": 3, "daughters>=5": 10,
            "defined-param": 10, "negated-defined-param": 5, "word-param": 10, "public-api-observation": 30, "corpus-file": 20, "second-parse-same-instance": 10, "file-constructor-same-path-rewritten": 10}
ASSUMPTIONS = ["texts are in L_dec (DESIGN 2.1): labels are not numeric prefixes, reserved words or model-name + non-word suffix",
               "corpus files are judged only where the independent reference reader understands them (unsupported ones are counted, not judged)"]
EXHAUSTIVE_NOTE = "every published model name appears in at least one generated decay line per run (cycled, not sampled)"

_models_seen: set = set()
_flags: list = []


def gen_file(ctx):
    g = decgen.Gen(ctx.rng)
    r = ctx.rng
    stmts = []
    defs = {}
    for _ in range(r.choice([0, 1, 2, 4])):
        d = g.misc("Define")
        defs[d["name"]] = d["value"]
        stmts.append(d)
    nblocks = g.ladder(12, 1)
    mothers = []
    blocks = []
    for _ in range(nblocks):
        m = g.name()
        mothers.append(m)
        blocks.append(g.decay(m, defs=defs, daughters_pool=mothers))
    # repeated mothers: identical and different bodies
    for _ in range(r.choice([0, 0, 1, 2])):
        src = r.choice(blocks)
        if r.random() < 0.5:
            dup = {"k": "Decay", "m": src["m"], "lines": [dict(ln) for ln in src["lines"]]}
        else:
            dup = g.decay(src["m"], defs=defs)
        blocks.insert(r.randint(blocks.index(src) + 1, len(blocks)), dup)
    misc = [g.misc(r.choice(decgen.MISC_KINDS)) for _ in range(r.choice([0, 0, 2, 5]))]
    if r.random() < 0.3:
        # a ModelAlias used on some lines (with and without the PHOTOS keyword): the line reports the model and parameters the alias stands for
        al = {"k": "ModelAlias", "name": r.choice(["MyAliasA", "SLBKPOLE_DtoKlnu", "MA_1"]), "model": r.choice(g.models), "params": g.params(k=r.choice([0, 2, 3]))}
        if L.label_ok(al["name"], g.models):
            misc.append(al)
            for b in blocks:
                for ln in b["lines"]:
                    if r.random() < 0.3:
                        ln["model"], ln["params"] = al["name"], []
    if r.random() < 0.3:
        misc.append({"k": "CopyDecay", "a": "CopyOf" + g.label(odd=False), "b": r.choice(blocks)["m"]})
    if r.random() < 0.2:
        # CDecay statements (also one written twice) for mothers that have their own Decay block: the block is the table, once
        tgt = r.choice(blocks)["m"]
        misc += [{"k": "CDecay", "name": tgt}] * r.choice([1, 2])
    if r.random() < 0.2:
        # a conjugated table next to the written ones: the written tables stay first, in file order
        from .. import names as _names  # noqa: PLC0415

        src = r.choice(blocks)["m"]
        c = _names.conj(src)
        if not c.startswith("ChargeConj(") and c != src and all(b["m"] != c for b in blocks) and L.label_ok(c, g.models) \
                and not any(st["k"] == "CDecay" and st["name"] == c for st in misc):      # (one CDecay per derived name: a second one is outside every property)
            misc.append({"k": "CDecay", "name": c})
    if r.random() < 0.25:
        # an alias of a particle that has its own block, with a block of its own (the signal-decay idiom): two tables, each under its own name --
        # also when the particle's table is asked for by PDG name
        from .. import names as _names  # noqa: PLC0415

        e2p = _names.tables()["evt2pdg"]
        real = [b["m"] for b in blocks if e2p.get(b["m"])]
        if real:
            tgt = r.choice(real)
            al = "My" + r.choice(["Sig", "Tag", "Sig2", "_"]) + "".join(ch for ch in tgt if ch.isalnum())
            if L.label_ok(al, g.models) and all(b["m"] != al for b in blocks):
                misc.append({"k": "Alias", "a": al, "b": tgt})
                blocks.insert(r.randint(0, len(blocks)), g.decay(al, defs=defs))
                _flags.append("alias-with-its-own-block-next-to-the-block-of-its-particle")
    late_defs = [g.misc("Define") for _ in range(r.choice([0, 0, 1]))]
    stmts = decgen.interleave(r, stmts + late_defs, blocks, misc)
    if r.random() < 0.2:
        stmts.append({"k": "End"})
    return stmts


def classify(ctx, stmts):
    while _flags:
        ctx.hit(_flags.pop())
    seen = {}
    ntab = 0
    aliases_defined = {st["name"] for st in stmts if st["k"] == "ModelAlias"}
    for s in stmts:
        if s["k"] != "Decay":
            continue
        for lab in [s["m"], *[d for ln in s["lines"] for d in ln["fs"]]]:
            for c in set(lab) & set(L.ALPHABET_EXTRA):
                ctx.hit(f"char:{c}")
        if s["m"] in seen:
            ctx.hit("repeated-mother-identical-body" if seen[s["m"]] == s["lines"] else "repeated-mother-different-body")
            continue
        seen[s["m"]] = s["lines"]
        ntab += 1
        if not s["lines"]:
            ctx.hit("empty-block")
        if len(s["lines"]) >= 8:
            ctx.hit("lines>=8")
        ph = {bool(ln["photos"]) for ln in s["lines"]}
        if ph == {True, False}:
            ctx.hit("photos-mixed-in-one-table")
        for ln in s["lines"]:
            if ("bf-literal:" + ln["bf"]) in REQUIRED:
                ctx.hit("bf-literal:" + ln["bf"])
            _models_seen.add(ln["model"])
            if ln["model"] in aliases_defined:
                ctx.hit("line-with-model-alias" + ("+photos" if ln["photos"] else ""))
            if any(d in decgen.EXT_LABELS for d in [s["m"], *ln["fs"]]):
                ctx.hit("label-continuing-a-model-name")
            if not ln["fs"]:
                ctx.hit("line-without-daughters")
            if len(ln["fs"]) >= 5:
                ctx.hit("daughters>=5")
            for p in ln["params"]:
                if L.isnum(p):
                    if ("param-literal:" + p) in REQUIRED:
                        ctx.hit("param-literal:" + p)
                else:
                    ctx.hit("word-param")
                    if L.FLOATWORDS.match(p) or p in ("e5", "E-3"):
                        ctx.hit("word-param-that-python-float-would-read")
    if ntab >= 4:
        ctx.hit("tables>=4")
    if ntab >= 8:
        ctx.hit("tables>=8")
    defs = {s["name"] for s in stmts if s["k"] == "Define"}
    for s in stmts:
        if s["k"] == "Decay":
            for ln in s["lines"]:
                for p in ln["params"]:
                    if p in defs:
                        ctx.hit("defined-param")
                    elif p.startswith("-") and p[1:] in defs:
                        ctx.hit("negated-defined-param")


def public_observation(ctx, p, exp, wit, limit=3):
    """The observation points the property names, for up to `limit` mothers of the file."""
    ms = [m for m in exp["order"]][:limit]
    for m in ms:
        ctx.hit("public-api-observation")
        want = exp["tables"][m]
        ok, rows = ctx.guard("tables:public-queries", wit, snapshot.table_of, p, m)
        if not ok:
            continue
        got = [(r["bf"], tuple(r["fs"]), r["model"], tuple(r["params"])) for r in rows]
        w = [L.line_tuple(ln, with_photos=False) for ln in want]
        if L.typed(got) != L.typed(w):
            ctx.violate("tables:public:chain-details", f"{m}: build_decay_chains gives {got!r}, expected {w!r}", wit)
        if [r["fs_modes"] for r in rows] != [ln["fs"] for ln in want]:
            ctx.violate("tables:public:list_decay_modes", f"{m}: list_decay_modes gives {[r['fs_modes'] for r in rows]!r}", wit)
        if ctx.rng.random() < 0.5:
            # the caller edits what he was given (lists of lists, dictionaries) and asks again: the parser's answer is the file's, still
            ctx.hit("returned-values-edited-then-asked-again")
            snapshot.edit_returned_values(p, [m])
            ok, rows2 = ctx.guard("tables:public-queries:after-edit", wit, snapshot.table_of, p, m)
            if ok and L.typed(rows2) != L.typed(rows):
                ctx.violate("tables:public:answer-depends-on-edits-of-earlier-answers", f"{m}: asked again after editing the returned values: {rows2!r}, before {rows!r}", wit)
        if want:
            ok, txt = ctx.guard("tables:public:print", wit, snapshot.photos_flags, p, m)
            if ok:
                printed = [ln for ln in txt.splitlines() if ln.strip()]
                order = sorted(range(len(want)), key=lambda i: -want[i]["bf"])
                flags = [(" PHOTOS " in (row + " ")) or row.rstrip(";").split()[-1:] == ["PHOTOS"] for row in printed]
                expf = [want[i]["photos"] for i in order]
                if len(printed) != len(want):
                    ctx.violate("tables:public:print-rows", f"{m}: {len(printed)} printed rows for {len(want)} lines", wit)
                elif flags != expf:
                    ctx.violate("tables:public:photos-flag", f"{m}: PHOTOS flags printed {flags}, expected {expf}", wit)


def check_text(ctx, text, exp, wit, workload, user_models=(), files=None, nontrivial=True, public=True):
    ctx.case(text if files is None else {"files": files}, nontrivial, workload)
    ok, res = ctx.guard("parse", wit, snapshot.make_parser, text if files is None else None, files, user_models)
    if not ok:
        return None
    p, warns = res
    ctx.mon("C01.tables_match_model")
    for mech, msg in snapshot.compare_tables(p, exp):
        ctx.violate(mech, msg, wit)
    if p.number_of_decays != len(p.list_decay_mother_names()):
        ctx.violate("tables:count", f"number_of_decays {p.number_of_decays} != {len(p.list_decay_mother_names())} mothers", wit)
    if public:
        public_observation(ctx, p, exp, wit)
        # ... and asking for tables does not reorder them
        ms_after = list(p.list_decay_mother_names())
        if ms_after[: len(exp["order"])] != exp["order"]:
            ctx.violate("tables:mothers-order-after-queries", f"mothers after the table queries {ms_after[:len(exp['order']) + 2]}, file order {exp['order']}", wit)
    if files is None and ctx.rng.random() < 0.2:
        # a fresh object parsing the same text while the caller's filter turns warnings into errors (python -W error; pytest's filterwarnings = error):
        # either no warning surfaces and the tables are the same, or one does -- then the parse was refused, and the object either says so or still answers
        # with the file's tables
        ok5, p5 = ctx.guard("parse-under-error-filter", wit, snapshot.parse_under_error_filter, text, user_models)
        if ok5 and p5 is not None:
            ctx.hit("parsed-with-warnings-as-errors:no-warning-surfaced")
            for mech, msg in snapshot.compare_tables(p5, exp):
                ctx.violate("warnings-as-errors:" + mech, msg, wit)
        elif ok5 and snapshot.REFUSED:
            bad = snapshot.answers_after_a_refused_parse(snapshot.REFUSED[0], exp)
            ctx.hit("object-asked-after-its-parse-was-refused:" + ("says-it-is-not-parsed" if bad is None else "answers"))
            for mech, msg in (bad or []):
                ctx.violate("answers-after-a-refused-parse:" + mech, msg, wit)
    if files is None and ctx.rng.random() < 0.3:
        # the same instance parsed again must report the same tables (re-parsing is supported, it only warns)
        ctx.hit("second-parse-same-instance")
        import warnings  # noqa: PLC0415

        def again():
            with warnings.catch_warnings():
                warnings.simplefilter("ignore")
                p.parse()
            return snapshot.compare_tables(p, exp)

        ok2, bad = ctx.guard("second-parse", wit, again)
        for mech, msg in (bad or []):
            ctx.violate("after-second-parse:" + mech, msg, wit)
    if files is None and ctx.rng.random() < 0.3:
        # the same text through the file-based constructor, always at the *same path* (rewritten for every case of this worker)
        ctx.hit("file-constructor-same-path-rewritten")
        d = os.path.join(os.environ.get("VMON_RUN_DIR") or core.WORK, f"c01-{os.getpid()}")
        os.makedirs(d, exist_ok=True)
        path = os.path.join(d, "case.dec")
        from .. import layout  # noqa: PLC0415

        items = layout.segments(text, L.published_models(), user_models)
        ftext = layout.render(layout.rewrite(items, ctx.rng, ["comment", "space", "blank"], p=0.5))      # comments after decay lines, blank lines
        with open(path, "w", encoding="utf-8", newline="") as fh:
            fh.write(ftext)
        wit = {**wit, "file_text": ftext}
        paths = [path]
        bounds = layout.top_level_boundaries(layout.segments(ftext, L.published_models(), user_models))
        if bounds and ctx.rng.random() < 0.4:
            # ... split over two files at a statement boundary, the first one ending in a comment line without a final newline
            ctx.hit("file-constructor-two-files-first-without-final-newline")
            its = layout.segments(ftext, L.published_models(), user_models)
            cut = ctx.rng.choice(bounds)
            first, second = layout.render(its[: cut + 1]), layout.render(its[cut + 1:])
            first = first.rstrip("\r\n") + ctx.rng.choice(["", "\n# end of the first part", "\n#"])
            path2 = os.path.join(d, "case_part2.dec")
            with open(path, "w", encoding="utf-8", newline="") as fh:
                fh.write(first)
            with open(path2, "w", encoding="utf-8", newline="") as fh:
                fh.write(second)
            paths = [path, path2]
            wit = {**wit, "file_text": [first, second]}
        ok3, res3 = ctx.guard("parse-from-file", wit, snapshot.make_parser, None, paths, user_models)
        if ok3:
            for mech, msg in snapshot.compare_tables(res3[0], exp):
                ctx.violate("file-constructor:" + mech, msg, wit)
    return p


def corpus_files():
    data = os.path.join(core.REPO, "src", "decaylanguage", "data")
    tests = os.path.join(core.REPO, "tests", "data")
    out = [(os.path.join(data, "DECAY_LHCB.DEC"), ()), (os.path.join(data, "DECAY_BELLE2.DEC"), ())]
    for f in sorted(glob.glob(os.path.join(tests, "*.dec"))):
        out.append((f, ("CUSTOM_MODEL1", "CUSTOM_MODEL2") if "custom" in os.path.basename(f) else ()))
    for f in sorted(glob.glob(os.path.join(tests, "models", "*.dec"))):
        out.append((f, ()))
    return out


def run_corpus_file(ctx, f, um):
    with open(f, encoding="utf-8") as fh:
        text = fh.read()
    wit = {"kind": "corpus", "file": os.path.relpath(f, core.REPO), "user_models": list(um)}
    try:
        stmts = L.read(text + "\n", L.published_models(), um)
    except L.Unsupported as e:
        ctx.hit("corpus-unsupported")
        ctx.note("unsupported:" + os.path.basename(f), str(e)[:120])
        return
    ctx.hit("corpus-file")
    exp = L.expected(stmts)
    big = os.path.basename(f).startswith("DECAY_")
    check_text(ctx, None, exp, wit, "corpus", um, files=[f], public=not big)
    if big:
        ctx.note("master:" + os.path.basename(f), {"tables": len(exp["tables"]), "derived": len(exp["derived"]),
                                                  "lines": sum(len(v) for v in exp["tables"].values())})


def run(ctx):
    n = ctx.pick(90, 1200)
    for i in range(n):
        stmts = gen_file(ctx)
        text = L.render(stmts)
        classify(ctx, stmts)
        exp = L.expected(stmts)
        wit = {"kind": "generated", "text": text}
        nontriv = any(ln["fs"] for s in stmts if s["k"] == "Decay" for ln in s["lines"])
        check_text(ctx, text, exp, wit, "gen", nontrivial=nontriv)
        # harness self-check: the reference reader must read the canonical rendering back to the same model
        try:
            back = L.read(text, L.published_models())
            norm = [dict(s, width=s.get("width")) if s["k"] == "Particle" else {k: v for k, v in s.items() if k != "sp"} for s in stmts if s["k"] != "End"]
            if back != norm:
                ctx.inconclusive.append("reference reader disagrees with the renderer on a generated text")
        except L.Unsupported as e:
            ctx.inconclusive.append(f"reference reader rejects a generated text: {e}")
        if i % 6 == 5 and len(exp["order"]) >= 2:
            # the idiom "copy the generic table, then write the signal table": CopyDecay X Y for an X that has its own Decay block.
            # What the copy adds is not C01's subject; the table of every mother named in a Decay block still lists the lines of its (first) block.
            x, y = ctx.rng.sample(exp["order"], 2)
            text2 = L.render([*stmts[: len(stmts) // 2], {"k": "CopyDecay", "a": x, "b": y}, *[st for st in stmts[len(stmts) // 2:] if st["k"] != "End"]])
            w2 = {"kind": "generated", "text": text2, "copy_onto_existing_block": [x, y]}
            ctx.hit("copydecay-onto-a-name-with-its-own-block")
            ctx.case(text2, True, "gen")
            ok4, res4 = ctx.guard("parse", w2, snapshot.make_parser, text2)
            if ok4:
                for m in exp["order"]:
                    ok5, rows = ctx.guard("tables:public-queries", w2, snapshot.table_of, res4[0], m)
                    if not ok5:
                        break
                    got = [(r_["bf"], tuple(r_["fs"]), r_["model"], tuple(r_["params"])) for r_ in rows]
                    want = [L.line_tuple(ln, with_photos=False) for ln in exp["tables"][m]]
                    if L.typed(got) != L.typed(want):
                        ctx.violate("tables:block-shadowed-by-a-copy", f"{m} (own Decay block, also target or source of CopyDecay {x} {y}): got {got!r} expected {want!r}", w2)
                        break
        if i < 2:
            ctx.sample({"text": text, "expected_tables": {m: [list(map(str, L.line_tuple(x))) for x in v] for m, v in exp["tables"].items()}})
        if len(ctx.violations) >= ctx.max_violations:
            break
    ctx.note("models_seen_this_worker", sorted(_models_seen))
    files = corpus_files()
    for i, (f, um) in enumerate(files):
        if ctx.mine(i):
            run_corpus_file(ctx, f, um)


def finish(merged):
    """Parent-side: all published models must have been seen across workers."""
    seen = set(merged["notes"].get("models_seen_this_worker", []))
    missing = [m for m in L.published_models() if m not in seen]
    if not missing:
        merged["classes"]["models-all-published"] = 1
    merged["notes"]["models_seen_this_worker"] = f"{len(seen)} distinct model names in generated decay lines; missing: {missing}"


def replay(ctx, w):
    if w["kind"] == "generated":
        stmts = L.read(w["text"], L.published_models())
        check_text(ctx, w["text"], L.expected(stmts), w, "replay")
    else:
        run_corpus_file(ctx, os.path.join(core.REPO, w["file"]), tuple(w.get("user_models", ())))
