"""C02 -- layout, comments, line ends and file packaging never change what is parsed.

Metamorphic monitor: a base input and a rewritten variant (random composition of R1..R12 applied at
random subsets of *all* gaps of the right type) must give identical snapshots of every public query.
Bases: generated files, every tests/data/*.dec and model smoke file, the two master files (sliced in the
quick tier, whole in the thorough tier).  No reference model is involved: the relation is the oracle.
"""
from __future__ import annotations

import json
import os
import shutil
import tempfile

from .. import chains, core, decgen, layout, snapshot
from .. import declang as L
from . import C01

RULE = ("one case per (base text, variant) pair; a variant is a random composition of the rewrites R1..R12; non-trivial = the variant text/packaging "
        "differs from the base and the base has >= 1 decay line; distinct by hash of (variant text(s), packaging)")
ANCHORS = ["decaylanguage.dec.dec:DecFileParser.__init__", "decaylanguage.dec.dec:DecFileParser.from_string", "decaylanguage.dec.dec:DecFileParser.parse"]
WORKERS = {"quick": 8, "thorough": 16}
WATCHDOG = {"quick": 900, "thorough": 3400}
R_ALL = ["R1-comment", "R2-blank-lines", "R3-indent", "R4-spacing", "R5-crlf", "R5-crlf-mixed", "R6-wrap", "R6-wrap-before-semicolon", "R7-comma",
         "R8-semicolons", "R9-end-added", "R9-end-removed", "R10-bom", "R11-multifile", "R12-file-vs-string"]
REQUIRED = {"multifile-first-part-larger-than-100kB": 3, **{r: 10 for r in R_ALL}, "isolated:R5-crlf": 2, "isolated:R10-bom": 2, "isolated:R8-semicolons": 2, "isolated:R6-wrap": 2, "isolated:R7-comma": 2,
            "isolated:R1-comment": 2, "multifile-cut-between-two-lines-of-a-decay-block": 5, "isolated:R11-multifile": 2, "isolated:R9-end-added": 2,
            "crlf+wrapped-params": 5, "bom-on-later-file": 3, "bom-on-first-file": 3, "multifile-end-in-every-file": 3, "multifile-no-trailing-newline": 3, "multifile-end-line-variants": 5, "multifile-crlf-end-line": 3,
            "text-closes-with-word-ending-in:n": 3, "text-closes-with-word-ending-in:d": 2, "text-closes-with-word-ending-in:E": 2, "string-ends-in-a-comment-without-newline": 5, "single-file-no-trailing-newline": 5, "single-file-larger-than-a-megabyte": 1, "variant-parsed-twice": 20, "master-file-variant": 2, "corpus-base": 20, "generated-base": 20, "snapshot-with-chains": 20}
ASSUMPTIONS = ["parameter-list wrapping only on non-empty lists; file splits at line ends between statements or between the lines of a Decay block (never inside a parameter list); string inputs end with a newline",
               "warnings are recorded, not compared; absent parameter list '' == []"]
DEFAULT_CFG = None
PART_NAMES = ["generic.dec", "custom.dec", "part10.dec", "part2.dec", "Zfirst.dec", "a_last.dec", "m.dec", "B.dec", "part1.dec", "0.dec", "_x.dec", "k.dec"]
TAILS = [{"k": "Alias", "a": "MyTail", "b": b} for b in ("Upsilon", "Mydeuteron", "phiE", "dEnd", "nEd", "K'", "x*", "p~", "f(2)", "a.", "b_", "c/", "D0", "pi+", "K-")] + [
    {"k": "Pythia", "cmd": "PythiaBothParam", "mod": "ParticleDecays", "par": "mixB", "value": "on", "sp": (" ", " ")},
    {"k": "ChargeConj", "a": "Myanti-deuteron", "b": "Mydeuteron"}]


def choose_mothers(p, bound=300, k=4):
    tabs = snapshot.tables(p)
    T = {m: [{"fs": list(r[1])} for r in rows] for m, rows in tabs.items() if "#dup" not in m}
    if not chains.is_acyclic(T):
        return []
    memo = {}
    out = []
    for m in T:
        s, n = chains.ref_sizes(T, m, memo)
        if s <= bound and n <= bound:
            out.append(m)
        if len(out) >= k:
            break
    return out


def observe(p, ms):
    return json.dumps(snapshot.full(p, chains_for=ms, expand_for=ms, print_for=ms), sort_keys=True, default=repr)


def parse_variant(variant, um):
    """variant: {"mode": "string", "text": ...} or {"mode": "files", "files": [bytes-as-str...], "bom": [bool...]}"""
    if variant["mode"] == "string":
        return snapshot.make_parser(variant["text"], None, um)
    # always the same directory and file names within one worker: paths are re-used with new content from variant to variant
    d = os.path.join(os.environ.get("VMON_RUN_DIR") or core.WORK, f"c02-{os.getpid()}")
    os.makedirs(d, exist_ok=True)
    try:
        paths = []
        for i, (content, bom) in enumerate(zip(variant["files"], variant["bom"])):
            pth = os.path.join(d, PART_NAMES[i % len(PART_NAMES)] if i < len(PART_NAMES) else f"zz{i}.dec")     # names that do not sort in the order given
            with open(pth, "wb") as f:
                f.write((b"\xef\xbb\xbf" if bom else b"") + content.encode("utf-8"))
            paths.append(pth)
        _nfiles[0] += 1
        if _nfiles[0] % 5 == 2:
            # the files are gone (moved away) between the construction of the object and its parse(), and back afterwards: the object was given the
            # files when it was made.  If parse() raises for that, it is asked once more with the files back; what it then reports is judged as usual.
            import warnings  # noqa: PLC0415

            from decaylanguage import DecFileParser  # noqa: PLC0415

            HITS.append("files-moved-away-between-construction-and-parse")
            p1 = DecFileParser(*paths)
            if um:
                p1.load_additional_decay_models(*um)
            away = d + ".away"
            os.rename(d, away)
            try:
                with warnings.catch_warnings():
                    warnings.simplefilter("ignore")
                    try:
                        p1.parse()
                        return p1, []
                    except Exception:  # noqa: BLE001
                        HITS.append("parse-refused-while-the-files-were-away:asked-again-with-the-files-back")
            finally:
                os.rename(away, d)
            with warnings.catch_warnings():
                warnings.simplefilter("ignore")
                p1.parse()
            return p1, []
        if _nfiles[0] % 3 == 1:
            # the same paths handed to a second object right after the first: it reads the files as they are, nothing of the first object's reading
            HITS.append("same-paths-given-to-a-second-object")
            snapshot.make_parser(None, paths, um)
            if len(paths) > 1 and _nfiles[0] % 2:
                try:
                    snapshot.make_parser(None, paths[:1], um)     # ... and the first file alone in between (it need not be a complete text: not judged)
                except Exception:  # noqa: BLE001, S110
                    pass
        return snapshot.make_parser(None, paths, um)
    finally:
        pass


_nfiles = [0]
HITS: list = []


_big_done = []


def make_variant(ctx, text, items, um, force=None):
    """-> (variant, applied: set of R names)"""
    rng = ctx.rng
    stats = {}
    applied = set()
    ops = rng.sample(layout.OPS, rng.randint(1, len(layout.OPS)))
    crlf = rng.choice([None, None, None, True, False, "mixed"])
    p = rng.choice([0.05, 0.3, 0.8])
    pack = rng.choice(["string", "string", "file", "multifile", "file-bom", "multifile"])
    end = rng.choice([None, None, "add", "remove"])
    if force is not None:   # one rewrite in isolation
        ops, crlf, p, pack, end = [], None, 0.6, "string", None
        if force == "R5-crlf":
            crlf = True
        elif force == "R10-bom":
            pack = "file-bom"
        elif force == "R11-multifile":
            pack = "multifile"
        elif force == "R9-end-added":
            end = "add"
        else:
            ops = {"R8-semicolons": ["semis"], "R6-wrap": ["wrap"], "R7-comma": ["comma"], "R1-comment": ["comment"]}[force]
    new_items = layout.rewrite(items, rng, ops, p=p, crlf=crlf, stats=stats) if (ops or crlf is not None) else list(items)
    applied |= set(stats)
    new = layout.render(new_items)
    if crlf is True and "\r\n" in new:
        applied.add("R5-crlf")
    if crlf == "mixed" and "\r\n" in new:
        applied.add("R5-crlf-mixed")
    if "\r\n" in new and ("R6-wrap" in stats or "R6-wrap-before-semicolon" in stats):
        ctx.hit("crlf+wrapped-params")
    has_end = any(it[0] == "T" and it[1] == "End" for it in items)
    nl = "\r\n" if crlf is True else "\n"
    if end == "add" and not has_end:
        new = new + ("" if new.endswith("\n") else nl) + rng.choice(["", " "]) + "End" + rng.choice(["", " # done"]) + nl
        applied.add("R9-end-added")
    elif end == "remove" and has_end:
        # drop the token End (it is the last significant token of the text)
        idx = max(i for i, it in enumerate(new_items) if it[0] == "T" and it[1] == "End")
        new = layout.render(new_items[:idx]) + nl
        applied.add("R9-end-removed")
    if pack == "string":
        if not new.endswith("\n"):
            new += "\n"
        if force is None and rng.random() < 0.15:
            # the string ends in a comment and no line end at all (the comment closes the last statement)
            new = new.rstrip("\r\n \t") + rng.choice(["  # closing note", " #", "\t# End"])
            applied.add("R1-comment")
            ctx.hit("string-ends-in-a-comment-without-newline")
        return {"mode": "string", "text": new}, applied
    applied.add("R12-file-vs-string")
    if pack in ("file", "file-bom"):
        if force is None and rng.random() < 0.3 and new.endswith("\n") and not new.endswith("\n\n"):
            new = new[:-2] if new.endswith("\r\n") else new[:-1]       # the (single) file does not end in a line end
            ctx.hit("single-file-no-trailing-newline")
        if force is None and (rng.random() < 0.04 or (ctx.shard == 0 and not _big_done)):
            # a long file: more than a megabyte of comment lines in front of the statements (file size is not part of the meaning)
            _big_done.append(1)
            nlc = "\r\n" if "\r\n" in new else "\n"
            new = "".join(f"# {i:06d} generated documentation header, kept by every release of this file ...........{nlc}" for i in range(13500)) + new
            applied.add("R1-comment")
            ctx.hit("single-file-larger-than-a-megabyte")
        bom = pack == "file-bom"
        if bom:
            applied.add("R10-bom")
            ctx.hit("bom-on-first-file")
        return {"mode": "files", "files": [new], "bom": [bom]}, applied
    # multi-file: split the *rewritten* text at top-level statement boundaries
    its = layout.segments(new, L.published_models(), um)
    bounds = layout.top_level_boundaries(its)
    inside = layout.decay_line_boundaries(its) if (force is None and rng.random() < 0.35) else []
    if inside:
        # the statement says "split over several files", not "split between blocks": a quota of cuts falls between two lines of a Decay block
        bounds = sorted(set(bounds) | set(rng.sample(inside, min(len(inside), 3))))
    if len(bounds) < 1:
        return {"mode": "files", "files": [new], "bom": [False]}, applied
    k = min(rng.choice([2, 3, 4]), len(bounds) + 1)
    cuts = sorted(rng.sample(bounds, k - 1))
    if set(cuts) & set(inside):
        ctx.hit("multifile-cut-between-two-lines-of-a-decay-block")
    parts = []
    prev = 0
    for c in [*cuts, None]:
        seg = its[prev:c + 1] if c is not None else its[prev:]
        parts.append(layout.render(seg))
        prev = (c + 1) if c is not None else None
    applied.add("R11-multifile")
    if force is None and rng.random() < 0.12:
        # a long first part (a master file's documentation header): 120 kB of comment lines in front of its statements
        nlc = "\r\n" if "\r\n" in parts[0] else "\n"
        parts[0] = "".join(f"# {i:05d} documentation header of the generic file, kept by every release ............{nlc}" for i in range(1500)) + parts[0]
        applied.add("R1-comment")
        ctx.hit("multifile-first-part-larger-than-100kB")
    every_end = rng.random() < 0.4
    files, boms = [], []
    for i, part in enumerate(parts):
        if every_end or rng.random() < 0.3:
            enl = "\r\n" if (crlf is True or (crlf == "mixed" and rng.random() < 0.5)) else "\n"
            if not part.rstrip(" \t").endswith("\n"):
                part += enl
            part += rng.choice(["End", "End", "End ", "  End", "End # done", "End\t#x", "\tEnd  # End of part"]) + enl
            if enl == "\r\n":
                ctx.hit("multifile-crlf-end-line")
            ctx.hit("multifile-end-line-variants")
        if rng.random() < 0.3 and part.endswith("\n") and not part.endswith("\n\n") and force is None:
            part = part[:-2] if part.endswith("\r\n") else part[:-1]
            ctx.hit("multifile-no-trailing-newline")
        b = force is None and rng.random() < 0.25
        if b:
            applied.add("R10-bom")
            ctx.hit("bom-on-first-file" if i == 0 else "bom-on-later-file")
        files.append(part)
        boms.append(b)
    if every_end:
        ctx.hit("multifile-end-in-every-file")
    return {"mode": "files", "files": files, "bom": boms}, applied


def check_base(ctx, text, um, nvariants, workload, label, isolated=()):
    wit0 = {"kind": "base", "label": label, "user_models": list(um)}
    ok, res = ctx.guard("base-parse", {**wit0, "text": text[:20000]}, snapshot.make_parser, text, None, um)
    if not ok:
        return
    p0, _ = res
    ms = choose_mothers(p0)
    if ms:
        ctx.hit("snapshot-with-chains")
    ok, s0 = ctx.guard("base-snapshot", {**wit0, "text": text[:20000]}, observe, p0, ms)
    if not ok:
        return
    items = layout.segments(text, L.published_models(), um)
    if layout.render(items) != text:
        ctx.inconclusive.append(f"layout lexer not lossless on {label}")
        return
    has_lines = any(v for v in snapshot.tables(p0).values())
    forces = list(isolated) + [None] * nvariants
    for force in forces:
        variant, applied = make_variant(ctx, text, items, um, force)
        differs = variant.get("text") != text
        ctx.case({"variant": variant, "um": list(um)}, nontrivial=bool(differs and has_lines and applied), workload=workload)
        for r in applied:
            ctx.hit(r)
        if force and force in applied:
            ctx.hit("isolated:" + force)
        wit = {"kind": "variant", "label": label, "user_models": list(um), "base_text": text if len(text) < 60000 else text[:60000],
               "variant": variant if len(text) < 60000 else {"truncated": True}, "applied": sorted(applied), "mothers": ms}
        ctx.mon("C02.snapshots_equal")
        mech = "variant:" + "+".join(sorted(a.split("-")[0] for a in applied)) if applied else "variant:none"
        try:
            p1, _ = parse_variant(variant, um)
            while HITS:
                ctx.hit(HITS.pop())
        except core.Inconclusive:
            raise
        except Exception as e:  # noqa: BLE001
            ctx.violate("variant-raises:" + type(e).__name__ + ":" + "+".join(sorted(a.split("-")[0] for a in applied)),
                        f"base parses, variant raises {type(e).__name__}: {str(e)[:300]}", wit)
            continue
        ok, s1 = ctx.guard("variant-snapshot", wit, observe, p1, ms)
        if ok and s1 != s0:
            a, b = json.loads(s0), json.loads(s1)
            diff = [k for k in a if a.get(k) != b.get(k)]
            ctx.violate("snapshot-differs:" + "+".join(sorted(x.split("-")[0] for x in applied)) + ":" + ",".join(diff),
                        f"snapshots differ in {diff} after {sorted(applied)}", wit)
        if ok and s1 == s0 and len(text) < 20000 and ctx.rng.random() < 0.25:
            # the variant object parsed a second time: whatever its packaging, it still holds its text
            import warnings  # noqa: PLC0415

            ctx.hit("variant-parsed-twice")

            def again(p1=p1):
                with warnings.catch_warnings():
                    warnings.simplefilter("ignore")
                    p1.parse()
                return observe(p1, ms)

            ok2, s2 = ctx.guard("variant-second-parse", wit, again)
            if ok2 and s2 != s0:
                a, b = json.loads(s0), json.loads(s2)
                diff = [k for k in a if a.get(k) != b.get(k)]
                ctx.violate("snapshot-differs-after-second-parse:" + variant["mode"] + ":" + ",".join(diff), f"the {variant['mode']}-based object parsed again: snapshots differ in {diff}", wit)
        if len(ctx.samples) < 3 and applied and len(text) < 1500:
            ctx.sample({"base": text, "variant": variant, "applied": sorted(applied)})
        _ = mech


def slice_master(text, ntables):
    items = layout.segments(text, L.published_models())
    n = 0
    for i, it in enumerate(items):
        if it[0] == "T" and it[1] == "Enddecay":
            n += 1
            if n >= ntables:
                return layout.render(items[: i + 1]) + "\n"
    return text


def run(ctx):
    os.makedirs(core.WORK, exist_ok=True)
    rng = ctx.rng
    iso = ["R5-crlf", "R10-bom", "R8-semicolons", "R6-wrap", "R7-comma", "R1-comment", "R11-multifile", "R9-end-added"]
    # generated bases
    for i in range(ctx.pick(12, 200)):
        stmts = C01.gen_file(ctx)
        if i % 2 == 0:
            # the text closes with a statement (no End line, no comment) whose last word ends in each character of the label alphabet in turn
            tail = TAILS[(i // 2 * ctx.nshards + ctx.shard) % len(TAILS)]
            stmts = [st for st in stmts if st["k"] != "End"] + [tail]
            last = (tail.get("b") or tail.get("value"))[-1]
            ctx.hit("text-closes-with-word-ending-in:" + last)
        ctx.hit("generated-base")
        check_base(ctx, L.render(stmts), (), ctx.pick(5, 8), "gen", f"generated#{i}", isolated=iso if i < 2 else ())
    # corpus bases
    files = C01.corpus_files()
    for i, (f, um) in enumerate(files):
        if not ctx.mine(i) or "issue90" in f:
            continue
        with open(f, encoding="utf-8") as fh:
            text = fh.read()
        if not text.endswith("\n"):
            text += "\n"
        big = os.path.basename(f).startswith("DECAY_")
        if big:
            continue
        ctx.hit("corpus-base")
        check_base(ctx, text, um, ctx.pick(3, 40), "corpus", os.path.basename(f), isolated=iso[:3] if i % 7 == 0 else ())
    # master files
    for j, (f, um) in enumerate(files[:2]):
        with open(f, encoding="utf-8") as fh:
            text = fh.read()
        if ctx.quick:
            if ctx.shard == j:
                ctx.hit("master-file-variant")
                check_base(ctx, slice_master(text, 150), um, 1, "master-sliced", os.path.basename(f) + "[:150 tables]")
        else:
            nv = 40 // ctx.nshards + (1 if ctx.shard < 40 % ctx.nshards else 0)
            if nv:
                ctx.hit("master-file-variant")
                check_base(ctx, text if text.endswith("\n") else text + "\n", um, nv, "master", os.path.basename(f))
    _ = rng


def replay(ctx, w):
    if w["kind"] != "variant" or w["variant"].get("truncated"):
        print("witness not replayable (master-file variant truncated); rerun the check with the same VERIF_SEED")
        return
    um = tuple(w["user_models"])
    p0, _ = snapshot.make_parser(w["base_text"], None, um)
    s0 = observe(p0, w["mothers"])
    ctx.case(w["variant"], True, "replay")
    try:
        p1, _ = parse_variant(w["variant"], um)
    except Exception as e:  # noqa: BLE001
        ctx.violate("variant-raises:" + type(e).__name__, f"{type(e).__name__}: {e}", w)
        return
    s1 = observe(p1, w["mothers"])
    if s1 != s0:
        ctx.violate("snapshot-differs", "snapshots differ", w)
