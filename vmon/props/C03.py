"""C03 -- CDecay yields the exact charge conjugate of the referenced decay table.

W-gen: files combining Decay, Alias, ChargeConj (both orientations, self-pairs), CopyDecay and CDecay in
random statement order; each parsed with include_ccdecays True and False.  Oracle: declang.expected with
the file's conjugation rule (ChargeConj statements read both ways, else vmon.names).  W-corpus: the
shipped files (177 CDecay statements in the master files) against the reference reader + the same rule.
"""
from __future__ import annotations

import os

from .. import core, decgen, names, snapshot
from .. import declang as L
from . import C01

RULE = ("one case per (generated or corpus file, value of the include-conjugates switch); non-trivial = at least one CDecay statement with an existing "
        "source table; distinct by hash of (text, switch)")
ANCHORS = ["decaylanguage.dec.dec:DecFileParser._add_charge_conjugate_decays", "decaylanguage.dec.dec:ChargeConjugateReplacement.particle",
           "decaylanguage.dec.dec:find_charge_conjugate_match", "decaylanguage.utils.particleutils:charge_conjugate_name",
           "decaylanguage.dec.dec:DecFileParser._add_decays_to_be_copied"]
WORKERS = {"quick": 4, "thorough": 16}
WTESTS = {"groups": ['parse'], "tests": ['tests/dec'], "counts": ["C01.parse."]}
REQUIRED = {"copydecay-onto-a-name-with-its-own-block-in-front-of-the-file": 5, "refused-parse-with-the-switch-off-then-parsed-with-it-on": 5, "source-mother-declared-three-times": 5, "refused-then-registered-then-parsed": 5, "orientation:forward": 20, "orientation:reverse": 20, "alias-alias-pair": 20, "self-pair": 5, "unknown-daughter": 20, "self-conjugate-daughter": 20,
            "aliased-daughter": 20, "source-from-CopyDecay": 10, "cdecay-without-source": 10, "decay+cdecay-one-name": 10, "decay+cdecay>=2-names": 5,
            "chargeconj-statements:1-2": 10, "chargeconj-statements>=6": 5, "switch-off:>3-tables+applicable": 10, "cdecay-before-source-block": 10,
            "chargeconj-after-use": 10, "tables>=4": 20, "photos-and-params-in-source": 20, "corpus-cdecay-statements": 100, "two-aliases-of-a-self-conjugate-particle": 5, "two-copies-of-one-source": 5, "switch:off-then-on-same-instance": 20, "switch:on-queried-then-off-same-instance": 20, "decay-block-empty+cdecay-same-name": 3, "real-name-pair": 20, "alias-paired-with-plain-name": 10}
ASSUMPTIONS = ["each name is the subject of at most one CDecay; ChargeConj declarations are consistent (a partial involution); no ChargeConj pairs an alias with a real self-conjugate name",
               "relative order of derived tables is not compared"]

UNKNOWN = ["Foo", "X_1(3872)x", "my~part", "a/b", "q'", "zz*", "Xnew", "X(1)~"]


def gen_file(ctx):
    r = ctx.rng
    g = decgen.Gen(r)
    pairs = [(a, b) for a, b in names.antiparticle_pairs() if a in g.real and b in g.real]
    selfc = [n for n in names.self_conjugates() if n in g.real]
    cc = {}          # declared pairs (orientation as written)
    alias_st, cc_st = [], []
    aliases = {}
    nal = r.choice([0, 1, 1, 2, 3, 4, 6, 8])
    hits = []
    for i in range(nal):
        n, c = r.choice(pairs)
        a, b = f"My{n}", f"My{c}"
        if i % 3 == 2:
            a, b = f"{n}sig", f"{c}sig"
        if a in aliases or b in aliases or not (L.label_ok(a, g.models) and L.label_ok(b, g.models)):
            continue
        aliases[a] = n
        aliases[b] = c
        alias_st += [{"k": "Alias", "a": a, "b": n}, {"k": "Alias", "a": b, "b": c}]
        if r.random() < 0.85:
            hits.append("alias-alias-pair")
            if r.random() < 0.5:
                cc[a] = b
                cc_st.append({"k": "ChargeConj", "a": a, "b": b})
            else:
                cc[b] = a
                cc_st.append({"k": "ChargeConj", "a": b, "b": a})
    onesided = []
    if r.random() < 0.3:
        # a one-sided signal alias: the alias is declared conjugate to a plain EvtGen name (statement read in either direction)
        n, c = r.choice(pairs)
        a = f"Sig{n}"
        if a not in aliases and n not in aliases.values() and c not in aliases.values() and L.label_ok(a, g.models):
            aliases[a] = n
            alias_st.append({"k": "Alias", "a": a, "b": n})
            if r.random() < 0.5:
                cc[a] = c
                cc_st.append({"k": "ChargeConj", "a": a, "b": c})
            else:
                cc[c] = a
                cc_st.append({"k": "ChargeConj", "a": c, "b": a})
            onesided = [a, c, n]
            hits.append("alias-paired-with-plain-name")
    if r.random() < 0.2 and selfc:
        n = r.choice(selfc)
        a = f"My{n}"
        if a not in aliases and L.label_ok(a, g.models):
            aliases[a] = n
            alias_st.append({"k": "Alias", "a": a, "b": n})
            cc[a] = a
            cc_st.append({"k": "ChargeConj", "a": a, "b": a})
            hits.append("self-pair")
    if r.random() < 0.15 and selfc:
        # two aliases of one self-conjugate particle, declared conjugates of each other
        n = r.choice(selfc)
        a, b = f"My{n}", f"Myanti-{n}"
        if a not in aliases and b not in aliases and L.label_ok(a, g.models) and L.label_ok(b, g.models):
            aliases[a] = n
            aliases[b] = n
            alias_st += [{"k": "Alias", "a": a, "b": n}, {"k": "Alias", "a": b, "b": n}]
            cc[a] = b
            cc_st.append({"k": "ChargeConj", "a": a, "b": b})
            hits.append("two-aliases-of-a-self-conjugate-particle")
    unpaired = None
    if r.random() < 0.2 and selfc:
        # an alias of a self-conjugate particle that no ChargeConj statement mentions: as a daughter it has no known conjugate (marked, not guessed)
        n = r.choice(selfc)
        a = f"Un{n}"
        if a not in aliases and L.label_ok(a, g.models):
            aliases[a] = n
            alias_st.append({"k": "Alias", "a": a, "b": n})
            unpaired = a
            hits.append("unpaired-alias-of-a-self-conjugate-particle")
    conj = L.file_conj(cc)

    def daughters():
        k = r.choice([0, 1, 2, 2, 3, 3, 4, 5])
        out = []
        for _ in range(k):
            x = r.random()
            if onesided and x < 0.25:
                out.append(r.choice(onesided))
            elif unpaired and x < 0.35:
                out.append(unpaired)
            elif x < 0.5:
                out.append(r.choice(g.real))
            elif x < 0.7 and aliases:
                out.append(r.choice(list(aliases)))
            elif x < 0.85:
                out.append(r.choice(UNKNOWN))
            else:
                out.append(r.choice(selfc))
        if out and r.random() < 0.3:
            out.append(out[0])
        return out

    used = set()
    blocks, cdecays, copies = [], [], []
    mothers = []
    ntab = r.choice([1, 2, 3, 4, 5, 8])
    for _ in range(ntab):
        m = r.choice(list(aliases)) if aliases and r.random() < 0.5 else r.choice(pairs)[0]
        if onesided and not (set(onesided) & used) and r.random() < 0.7:
            m = onesided[0] if r.random() < 0.6 else onesided[1]
        if "two-aliases-of-a-self-conjugate-particle" in hits and not any(x.startswith("Myanti-") or x[2:] in selfc for x in used) and r.random() < 0.7:
            m = next(x for x in aliases if x[2:] in selfc and not x.startswith("Myanti-"))
        if m in used:
            continue
        used.add(m)
        lines = []
        for _ in range(r.choice([0, 1, 2, 3, 4, 5])):
            model = r.choice(["PHSP", "SVS", "VSS_BMIX", "HELAMP", "PHOTOS_SPECIAL"][:4])
            params = {"PHSP": [], "SVS": [], "VSS_BMIX": ["0.5"], "HELAMP": ["1.0", "0.0", "-1.0", "0.5"]}[model]
            lines.append({"bf": g.bflit(), "fs": daughters(), "photos": r.random() < 0.3, "model": model, "params": list(params)})
        mothers.append(m)
        blocks.append({"k": "Decay", "m": m, "lines": lines})
        c = conj(m)
        if r.random() < 0.65 and not c.startswith("ChargeConj(") and c not in used and c != m:
            used.add(c)
            cdecays.append({"k": "CDecay", "name": c})
            hits.append("orientation:forward" if m in cc else ("orientation:reverse" if c in cc else "real-name-pair"))
    # source created by CopyDecay: NEW copies an existing table; CDecay of NEW's declared conjugate
    if mothers and r.random() < 0.35:
        old = r.choice(mothers)
        new, newbar = f"Cp{len(mothers)}x", f"Cp{len(mothers)}xbar"
        copies.append({"k": "CopyDecay", "a": new, "b": old})
        if r.random() < 0.5:
            cc[new] = newbar
            cc_st.append({"k": "ChargeConj", "a": new, "b": newbar})
        else:
            cc[newbar] = new
            cc_st.append({"k": "ChargeConj", "a": newbar, "b": new})
        cdecays.append({"k": "CDecay", "name": newbar})
        used |= {new, newbar}
        hits.append("source-from-CopyDecay")
        if r.random() < 0.5:
            copies.append({"k": "CopyDecay", "a": new + "2", "b": old})     # a second copy of the same source
            used.add(new + "2")
            hits.append("two-copies-of-one-source")
    # CDecay without a source table
    if r.random() < 0.3:
        for n, c in r.sample(pairs, 3):
            if n not in used and c not in used:
                used |= {n, c}
                cdecays.append({"k": "CDecay", "name": n})
                hits.append("cdecay-without-source")
                break
    # Decay X together with CDecay X (X keeps its own table), on one or several names
    if mothers and r.random() < 0.4:
        ks = r.sample(mothers, min(len(mothers), r.choice([1, 1, 2, 3])))
        ks = [m for m in ks if not any(c["name"] == m for c in cdecays)]
        for m in ks:
            cdecays.append({"k": "CDecay", "name": m})
        if len(ks) == 1:
            hits.append("decay+cdecay-one-name")
        elif len(ks) >= 2:
            hits.append("decay+cdecay>=2-names")
    # an aliased (paired) mother whose lines contain self-conjugate particles only: its conjugate still gets the table, under its own name
    paired = [(a, b) for a, b in cc.items() if a in aliases and b in aliases and a != b and a not in used and b not in used]
    if paired and selfc and r.random() < 0.3:
        a, b = r.choice(paired)
        used |= {a, b}
        blocks.append({"k": "Decay", "m": a, "lines": [{"bf": g.bflit(), "fs": r.sample(selfc, min(len(selfc), r.choice([1, 2, 3]))), "photos": False, "model": "PHSP", "params": []}
                                                       for _ in range(r.choice([1, 2, 3]))]})
        cdecays.append({"k": "CDecay", "name": b})
        hits.append("aliased-mother-with-self-conjugate-daughters-only")
    # Decay X with *no lines* (X declared stable) together with CDecay X, the conjugate having a table of its own: X keeps its empty table
    if r.random() < 0.15:
        for n, c in r.sample(pairs, 3):
            if n not in used and c not in used and conj(n) == c:
                used |= {n, c}
                blocks.append({"k": "Decay", "m": n, "lines": []})
                blocks.append({"k": "Decay", "m": c, "lines": [{"bf": "1.0", "fs": daughters(), "photos": False, "model": "PHSP", "params": []}]})
                cdecays.append({"k": "CDecay", "name": n})
                hits.append("decay-block-empty+cdecay-same-name")
                break
    # a mother whose conjugate table is requested, declared again twice (three blocks in all): the first block in the file counts, for the conjugate too
    srcs = [b for b in blocks if b["lines"] and any(c["name"] == conj(b["m"]) for c in cdecays)]
    if srcs and r.random() < 0.2:
        b = r.choice(srcs)
        for _ in range(2):
            blocks.append({"k": "Decay", "m": b["m"], "lines": [{"bf": g.bflit(), "fs": daughters(), "photos": False, "model": "PHSP", "params": []} for _ in range(r.choice([1, 2]))]})
        hits.append("source-mother-declared-three-times")
    stmts = decgen.interleave(r, alias_st, cc_st, blocks, cdecays, copies)
    if r.random() < 0.5:
        r.shuffle(stmts)
    return stmts, hits


def classify(ctx, stmts, hits, exp):
    for h in hits:
        ctx.hit(h)
    ncc = sum(1 for s in stmts if s["k"] == "ChargeConj")
    if 1 <= ncc <= 2:
        ctx.hit("chargeconj-statements:1-2")
    if ncc >= 6:
        ctx.hit("chargeconj-statements>=6")
    if len(exp["tables"]) >= 4:
        ctx.hit("tables>=4")
    pos = {}
    for i, s in enumerate(stmts):
        if s["k"] == "Decay":
            pos.setdefault(s["m"], i)
    conj = L.file_conj(exp["cc"])
    for i, s in enumerate(stmts):
        if s["k"] == "CDecay" and s["name"] in exp["derived"]:
            src = conj(s["name"])
            if src in pos and i < pos[src]:
                ctx.hit("cdecay-before-source-block")
            for ln in exp["derived"][s["name"]]:
                if ln["photos"] and ln["params"]:
                    ctx.hit("photos-and-params-in-source")
    firstuse = min((i for i, s in enumerate(stmts) if s["k"] in ("Decay", "CDecay")), default=0)
    if any(s["k"] == "ChargeConj" and i > firstuse for i, s in enumerate(stmts)):
        ctx.hit("chargeconj-after-use")
    al = exp["aliases"]
    for tab in exp["derived"].values():
        for ln in tab:
            for d in ln["fs"]:
                if d.startswith("ChargeConj("):
                    ctx.hit("unknown-daughter")
    for tab in exp["tables"].values():
        for ln in tab:
            for d in ln["fs"]:
                if d in al:
                    ctx.hit("aliased-daughter")
                elif names.kind(d) == "self-conjugate":
                    ctx.hit("self-conjugate-daughter")


def check(ctx, text, stmts, wit, workload, um=(), files=None):
    exp_on = L.expected(stmts, include_cc=True)
    exp_off = L.expected(stmts, include_cc=False)
    cd = [x for x in exp_on["derived"] if x not in exp_off["derived"]]
    for include_cc, exp in ((True, exp_on), (False, exp_off)):
        ctx.case({"text": text if files is None else files, "cc": include_cc}, nontrivial=bool(cd), workload=workload)
        w = {**wit, "include_ccdecays": include_cc}
        ok, res = ctx.guard("parse", w, snapshot.make_parser, text if files is None else None, files, um, include_cc)
        if not ok:
            continue
        p, warns = res
        ctx.mon("C03.tables_match_conjugation_rule")
        for mech, msg in snapshot.compare_tables(p, exp):
            ctx.violate(mech + (":cc-on" if include_cc else ":cc-off"), msg, w)
        if not include_cc and len(exp_on["tables"]) > 3 and cd:
            ctx.hit("switch-off:>3-tables+applicable")
        for mech, msg in snapshot.compare_globals(p, exp):
            ctx.violate("with-cdecay:" + mech, msg, w)
        if include_cc and files is None and cd and ctx.rng.random() < 0.4:
            # ... and the other way round: conjugated tables looked at, then the same instance parsed again with the switch off: they are gone
            ctx.hit("switch:on-queried-then-off-same-instance")
            import warnings  # noqa: PLC0415

            from decaylanguage.dec.dec import DecayNotFound  # noqa: PLC0415

            def off_again(p=p):
                out = []
                for x in cd:
                    p.list_decay_modes(x)
                with warnings.catch_warnings():
                    warnings.simplefilter("ignore")
                    p.parse(include_ccdecays=False)
                out += snapshot.compare_tables(p, exp_off)
                for x in cd:
                    try:
                        got = p.list_decay_modes(x)
                    except DecayNotFound:
                        continue
                    out.append(("tables:derived:still-answered-after-switch-off", f"list_decay_modes({x!r}) = {got!r} although {x} is no longer among the mothers"))
                return out

            ok2, bad = ctx.guard("parse-off-after-on", w, off_again)
            for mech, msg in (bad or []):
                ctx.violate(mech + ":cc-off-after-on", msg, w)
            continue
        if not include_cc and files is None and ctx.rng.random() < 0.5:
            # the switch is per call: the same instance parsed again with conjugates enabled must give the conjugated tables
            ctx.hit("switch:off-then-on-same-instance")
            import warnings  # noqa: PLC0415

            def on_again(p=p):
                with warnings.catch_warnings():
                    warnings.simplefilter("ignore")
                    p.parse(include_ccdecays=True)
                return snapshot.compare_tables(p, exp_on)

            ok2, bad = ctx.guard("parse-on-after-off", w, on_again)
            for mech, msg in (bad or []):
                ctx.violate(mech + ":cc-on-after-off", msg, w)
    return exp_on


def refused_then_registered(ctx, stmts):
    """A line uses a model the library does not know: parse() refuses; the model is registered on the SAME object; parse() again:
    the conjugated tables are those of the rule, as from a fresh object that had the model registered first."""
    import copy  # noqa: PLC0415
    import warnings  # noqa: PLC0415

    from decaylanguage import DecFileParser  # noqa: PLC0415

    st = copy.deepcopy(stmts)
    free = [ln for x in st if x["k"] == "Decay" for ln in x["lines"] if not ln["params"] and ln["model"]]
    if not free:
        return
    name = ctx.rng.choice(["MYOWNMODEL", "UGEN2", "LOCAL_SHAPE"])
    ctx.rng.choice(free)["model"] = name
    text = L.render(st)
    exp_on = L.expected(st, include_cc=True)
    exp_off = L.expected(st, include_cc=False)
    cd = [x for x in exp_on["derived"] if x not in exp_off["derived"]]
    if not cd:
        return
    first_off = ctx.rng.random() < 0.5
    if first_off:
        ctx.hit("refused-parse-with-the-switch-off-then-parsed-with-it-on")
    wit = {"kind": "refused-then-registered", "text": text, "model": name, "refused_call_had_the_switch_off": first_off}
    ctx.case({"text": text, "history": "refused-registered-parsed"}, nontrivial=True, workload="gen")

    def history():
        p = DecFileParser.from_string(text)
        with warnings.catch_warnings():
            warnings.simplefilter("ignore")
            try:
                # (the refused request half of the time with the switch off: it is an argument of that one call, not a setting of the object)
                p.parse(include_ccdecays=False) if first_off else p.parse()
            except Exception:  # noqa: BLE001  - the refusal is the library's documented answer to an unknown model
                pass
            else:
                return None
            p.load_additional_decay_models(name)
            p.parse() if ctx.rng.random() < 0.5 else p.parse(include_ccdecays=True)
        return snapshot.compare_tables(p, exp_on)

    ok, bad = ctx.guard("parse-after-refusal-and-registration", wit, history)
    if ok and bad is not None:
        ctx.hit("refused-then-registered-then-parsed")
        ctx.mon("C03.tables_match_conjugation_rule")
        for mech, msg in bad:
            ctx.violate(mech + ":cc-on-after-refused-parse", msg, wit)


def copy_onto_a_name_with_its_own_block(ctx, stmts, exp):
    """The same file with one more statement in front, `CopyDecay X Y` for two mothers that both have their own Decay block (X's block is its table): every
    table made by CDecay is still the conjugate of its source -- also when the source is itself a copy made by a later CopyDecay statement."""
    blocks = [st["m"] for st in stmts if st["k"] == "Decay"]
    cds = {st["name"] for st in stmts if st["k"] == "CDecay"}
    made = [x for x in exp["derived"] if x in cds]
    # X is no source of anything else (neither of a CDecay nor of another CopyDecay): which of X's two tables such a statement would mean is not stated by
    # any property; here X's second table is simply one more entry in front of the copies that matter
    conj = L.file_conj(exp["cc"])
    used = {conj(n) for n in cds} | {st["b"] for st in stmts if st["k"] == "CopyDecay"} | cds
    free = sorted(b for b in set(blocks) if b not in used)
    if len(set(blocks)) < 2 or not made or not free:
        return
    x = ctx.rng.choice(free)
    y = ctx.rng.choice(sorted(b for b in set(blocks) if b != x))
    pos = ctx.rng.choice([0, 0, len(stmts) // 2])
    st2 = stmts[:pos] + [{"k": "CopyDecay", "a": x, "b": y}] + stmts[pos:]
    text2 = L.render(st2)
    wit = {"kind": "generated", "text": text2, "copy_onto_existing_block": [x, y]}
    ctx.case(text2, True, "gen")
    ctx.hit("copydecay-onto-a-name-with-its-own-block-in-front-of-the-file")
    ok, res = ctx.guard("parse", wit, snapshot.make_parser, text2)
    if not ok:
        return
    for name in made:
        want = [list(ln["fs"]) for ln in exp["derived"][name]]
        try:
            got = res[0].list_decay_modes(name)
        except Exception as e:  # noqa: BLE001
            ctx.violate("tables:derived:missing-when-a-copy-is-made-onto-a-name-with-its-own-block", f"list_decay_modes({name!r}) raised {type(e).__name__}: {e}; expected {want}", wit)
            return
        if got != want:
            ctx.violate("tables:derived:fs:when-a-copy-is-made-onto-a-name-with-its-own-block", f"{name}: {got} expected {want}", wit)
            return


def run(ctx):
    for i in range(ctx.pick(120, 1500)):
        stmts, hits = gen_file(ctx)
        text = L.render(stmts)
        exp = check(ctx, text, stmts, {"kind": "generated", "text": text}, "gen")
        classify(ctx, stmts, hits, exp)
        if i % 4 == 0:
            refused_then_registered(ctx, stmts)
        if i % 3 == 1:
            copy_onto_a_name_with_its_own_block(ctx, stmts, exp)
        if i < 2:
            ctx.sample({"text": text, "conjugated_tables": {m: [list(map(str, L.line_tuple(x))) for x in v] for m, v in exp["derived"].items()}})
        if len(ctx.violations) >= ctx.max_violations:
            return
    files = C01.corpus_files()
    for i, (f, um) in enumerate(files):
        if not ctx.mine(i) or "/models/" in f:
            continue
        with open(f, encoding="utf-8") as fh:
            text = fh.read()
        try:
            stmts = L.read(text + "\n", L.published_models(), um)
        except L.Unsupported:
            continue
        ncd = sum(1 for s in stmts if s["k"] == "CDecay")
        if not ncd:
            continue
        ctx.hit("corpus-cdecay-statements", ncd)
        check(ctx, None, stmts, {"kind": "corpus", "file": os.path.relpath(f, core.REPO), "user_models": list(um)}, "corpus", um, files=[f])


def replay(ctx, w):
    if w["kind"] == "refused-then-registered":
        stmts = L.read(w["text"], L.published_models(), (w["model"],))
        for x in stmts:      # the replay takes the text as it is
            pass
        _replay_refused(ctx, w, stmts)
    elif w["kind"] == "generated":
        stmts = L.read(w["text"], L.published_models())
        check(ctx, w["text"], stmts, {"kind": "generated", "text": w["text"]}, "replay")
    else:
        f = os.path.join(core.REPO, w["file"])
        with open(f, encoding="utf-8") as fh:
            stmts = L.read(fh.read() + "\n", L.published_models(), tuple(w["user_models"]))
        check(ctx, None, stmts, w, "replay", tuple(w["user_models"]), files=[f])


def _replay_refused(ctx, w, stmts):
    import warnings  # noqa: PLC0415

    from decaylanguage import DecFileParser  # noqa: PLC0415

    exp_on = L.expected(stmts, include_cc=True)
    ctx.case({"text": w["text"], "history": "refused-registered-parsed"}, nontrivial=True, workload="replay")
    p = DecFileParser.from_string(w["text"])
    with warnings.catch_warnings():
        warnings.simplefilter("ignore")
        try:
            p.parse()
        except Exception:  # noqa: BLE001
            pass
        p.load_additional_decay_models(w["model"])
        p.parse()
    ctx.mon("C03.tables_match_conjugation_rule")
    for mech, msg in snapshot.compare_tables(p, exp_on):
        ctx.violate(mech + ":cc-on-after-refused-parse", msg, w)
