"""C04 -- charge conjugation is a PDG-consistent involution at every layer.

W-enum: every EvtGen name (806) and PDG name (1014) through the real charge_conjugate_name, twice
(involution), visited in two orders so the 64-entry lru_cache is seen cold, warm and evicting.
W-gen: random final states / decay modes over those names (multiplicities 1..5, both naming schemes,
bf + nested metadata) through DaughtersDict/DecayMode.charge_conjugate; cross-layer: a generated file
`Decay X ... Enddecay / CDecay anti-X` whose CDecay-created lines must equal, as multisets,
DecayMode.charge_conjugate() of the source lines.
Oracle: vmon.names (raw csv tables of `particle`), armed as icontract post-conditions on the real
functions (all import sites re-bound) and compared directly.
"""
from __future__ import annotations

import warnings
from collections import Counter

from .. import contracts, names

RULE = ("W-enum: one case per (name, naming scheme, cache state); W-gen: one case per generated final state / mode / one-table file; "
        "non-trivial = the name (or some daughter) has a distinct antiparticle, so conjugation must change it")
ANCHORS = ["decaylanguage.utils.particleutils:charge_conjugate_name", "decaylanguage.decay.decay:DaughtersDict.charge_conjugate",
           "decaylanguage.decay.decay:DecayMode.charge_conjugate", "decaylanguage.dec.dec:ChargeConjugateReplacement.particle"]
WORKERS = {"quick": 4, "thorough": 16}
WTESTS = {"groups": ['conj'], "tests": ['tests/decay', 'tests/utils', 'tests/dec/test_dec.py']}
REQUIRED = {"direct-use-with-the-callers-own-table-of-pairs": 50, "visitor-applied-twice-to-one-tree": 5, "cross-layer-file:both-tables-read-with-details:conjugate-first": 2, "cross-layer-file:both-tables-read-with-details:source-first": 2, "kind:has-antiparticle": 300, "kind:self-conjugate": 50, "kind:in-table-no-conjugate": 10, "kind:unknown-label": 50,
            "pdg-route": 500, "multiplicity>=4": 20, "metadata>=2-user-keys": 20, "cross-layer-file": 10, "evtgen-only-spelling-through-the-pdg-route": 100, "cross-layer-file-with-the-cdecay-statement-twice": 3, "particle-and-antiparticle-with-unequal-multiplicities": 20, "names-again-after-an-ampgen-read-in-the-same-process": 100, "cross-layer-file-with-copy": 5, "cross-layer-file-with-sourceless-cdecay:sorting-first": 3, "returned-value-mutated-then-again": 50, "cache-cold": 1, "cache-evicting": 1,
            "C04.name.matches_table_oracle": 1000, "C04.daughters.each_particle_with_multiplicity": 100, "C04.mode.bf_and_metadata_kept": 100}
EXHAUSTIVE_NOTE = "every EvtGen name and every PDG name of the installed tables is visited by every worker subset union (sharded), both cache states"
ASSUMPTIONS = ["the csv data tables of the installed particle package are the ground truth for IDs, names and self-conjugacy"]

UNKNOWN = ["ChargeConj(Foo)", "ChargeConj(K+x)", "Foo", "X_1(3872)x", "my~part", "a/b", "q'", "zz*", "MyD0bar", "anti-Foo", "K+x", "pi", "ChargeConj", "B0sig", "D*+_cc", "(x)", "n~", "my resonance", "two\twords"]


def check_name(ctx, n, pdg, tag):
    from decaylanguage.utils.particleutils import charge_conjugate_name as ccn  # noqa: PLC0415

    wit = {"kind": "name", "name": n, "pdg_name": pdg}
    exp = names.conj_pdg(n) if pdg else names.conj(n)
    k = names.kind(names.tables()["pdg2evt"].get(n, "") if pdg else n)
    ctx.case({"n": n, "pdg": pdg, "tag": tag}, nontrivial=(exp is not None and exp != n and not exp.startswith("ChargeConj(")), workload="enum")
    ctx.hit("kind:" + k)
    if pdg:
        ctx.hit("pdg-route")
    ok, got = ctx.guard("conj-name", wit, ccn, n, pdg) if pdg else ctx.guard("conj-name", wit, ccn, n)
    for v in contracts.drain():
        ctx.violate(v["mechanism"], v["message"], wit)
    if not ok or exp is None:
        return
    ctx.mon("C04.direct.name")
    if got != exp:
        ctx.violate("conj-name:direct:" + k, f"conj({n!r}, pdg={pdg}) = {got!r}, expected {exp!r}", wit)
    elif not got.startswith("ChargeConj("):
        ok, back = ctx.guard("conj-name", wit, ccn, got, pdg)
        contracts.drain()
        if ok and back != n:
            ctx.violate("conj-name:not-involution", f"conj(conj({n!r})) = {back!r}", wit)
    if len(ctx.samples) < 3 and exp != n:
        ctx.sample({"name": n, "pdg_name": pdg, "conjugate": got})


def gen_fs(ctx, pool, pdg):
    rng = ctx.rng
    k = rng.choice([1, 2, 3, 4, 5, 8])
    fs = {}
    for _ in range(k):
        r = rng.random()
        n = rng.choice(pool) if r < 0.85 or pdg else rng.choice(UNKNOWN)
        fs[n] = rng.choice([1, 1, 2, 3, 4, 5])
    if not pdg and rng.random() < 0.3:
        # a particle next to its own antiparticle, with another multiplicity
        n = next((x for x in fs if names.kind(x) == "has-antiparticle"), None)
        if n is not None and names.conj(n) not in fs:
            fs[names.conj(n)] = fs[n] + rng.choice([1, 2])
            ctx.hit("particle-and-antiparticle-with-unequal-multiplicities")
    return fs


def gen_meta(rng):
    m = {"model": rng.choice(["PHSP", "VSS", "HELAMP", ""]), "model_params": rng.choice(["", [1.0, 0.5], ["x", -2.0], None])}
    for i in range(rng.choice([0, 1, 2, 3])):
        m[rng.choice(["note", "src", "tag", "w"]) + str(i)] = rng.choice([1, "s", [1, {"a": None}], {"k": [1.5, True]}, None, 2.5, False, 0, 0.0, {}, [], ""])
    return m


def check_mode(ctx, fs, bf, meta, pdg):
    from decaylanguage import DaughtersDict, DecayMode  # noqa: PLC0415

    wit = {"kind": "mode", "fs": fs, "bf": bf, "meta": meta, "pdg_name": pdg}
    tab = names.tables()
    exp = Counter()
    amb = False
    for n, k in fs.items():
        c = names.conj_pdg(n) if pdg else names.conj(n)
        if c is None:
            amb = True
            break
        exp[c] += k
    if amb:
        return
    changed = any((names.conj_pdg(n) if pdg else names.conj(n)) not in (n, names.wrapped(n)) for n in fs)
    ctx.case({"fs": fs, "pdg": pdg, "bf": bf, "meta": meta}, nontrivial=changed, workload="gen")
    if max(fs.values()) >= 4:
        ctx.hit("multiplicity>=4")
    if len([k for k in meta if k not in ("model", "model_params")]) >= 2:
        ctx.hit("metadata>=2-user-keys")
    ok, dd = ctx.guard("conj-daughters", wit, lambda: DaughtersDict(dict(fs)).charge_conjugate(pdg_name=pdg))
    if ok:
        ctx.mon("C04.direct.daughters")
        if Counter(dict(dd)) != exp or len(dd) != sum(fs.values()):
            ctx.violate("conj-daughters:direct", f"conjugate of {fs} is {dict(dd)}, expected {dict(exp)}", wit)
    if ok and ctx.rng.random() < 0.5:
        # the value returned is the caller's: changing it in place must not show in a later conjugation of an equal final state
        ctx.hit("returned-value-mutated-then-again")
        try:
            first = next(iter(dd), None)
            if first is not None:
                dd[first] += 3
            dd["stray"] = 1
        except Exception:  # noqa: BLE001
            pass
        ok3, dd2 = ctx.guard("conj-daughters", wit, lambda: DaughtersDict(dict(fs)).charge_conjugate(pdg_name=pdg))
        if ok3 and Counter(dict(dd2)) != exp:
            ctx.violate("conj-daughters:depends-on-earlier-results", f"second conjugation of {fs} gives {dict(dd2)}, expected {dict(exp)}", wit)
    ok, dm = ctx.guard("conj-mode", wit, lambda: DecayMode(bf, dict(fs), **{k: v for k, v in meta.items()}).charge_conjugate(pdg_name=pdg))
    if ok:
        ctx.mon("C04.direct.mode")
        m0 = DecayMode(bf, dict(fs), **meta).metadata
        if dm.bf != bf or dm.metadata != m0 or Counter(dict(dm.daughters)) != exp:
            ctx.violate("conj-mode:direct", f"mode conjugate differs: bf {dm.bf} meta {dm.metadata!r} fs {dict(dm.daughters)}", wit)
        # conjugating twice gives back the original when every daughter has a known conjugate
        if all(not c.startswith("ChargeConj(") for c in exp):
            ok2, back = ctx.guard("conj-mode", wit, lambda: dm.charge_conjugate(pdg_name=pdg))
            if ok2 and Counter(dict(back.daughters)) != Counter(fs):
                ctx.violate("conj-mode:not-involution", f"conjugating twice gives {dict(back.daughters)} for {fs}", wit)
    for v in contracts.drain():
        ctx.violate(v["mechanism"], v["message"], wit)
    _ = tab


def check_file(ctx, mother, lines):
    """lines: [(bf_literal, [daughters])]; cross-layer agreement CDecay vs DecayMode.charge_conjugate."""
    from decaylanguage import DecayMode, DecFileParser  # noqa: PLC0415

    cm = names.conj(mother)
    text = f"Decay {mother}\n" + "".join(f"{bf} {' '.join(ds)} PHSP;\n" for bf, ds in lines) + f"Enddecay\nCDecay {cm}\n"
    orphan = None
    if ctx.rng.random() < 0.4:
        # one more CDecay whose source table does not exist (it adds nothing); names sorting before and after the real one
        cands = [b for a, b in names.antiparticle_pairs() if a != mother and b != mother and a != cm and b != cm and b.replace("anti-", "") == b]
        orphan = ctx.rng.choice(cands)
        text = f"CDecay {orphan}\n" + text
        ctx.hit("cross-layer-file-with-sourceless-cdecay" + (":sorting-first" if orphan < cm else ""))
    copied = ctx.rng.random() < 0.4
    if copied:      # a copy of the table, conjugated as well (ChargeConj pairs the copy with its declared conjugate)
        ctx.hit("cross-layer-file-with-copy")
        text += f"CopyDecay MyCp {mother}\nChargeConj MyCp MyCpbar\nCDecay MyCpbar\n"
    twice = (not copied) and ctx.rng.random() < 0.25
    if twice:
        # the CDecay statement once more (as when a generic file and a user file are parsed together): still the conjugated table under that name
        text += f"CDecay {cm}\n"
        ctx.hit("cross-layer-file-with-the-cdecay-statement-twice")
    wit = {"kind": "file", "mother": mother, "lines": lines}
    ctx.case({"file": text}, nontrivial=True, workload="gen-file")
    ctx.hit("cross-layer-file")

    def run():
        p = DecFileParser.from_string(text)
        with warnings.catch_warnings():
            warnings.simplefilter("ignore")
            p.parse()
        return p

    ok, p = ctx.guard("cdecay-file", wit, run)
    if not ok:
        return
    ctx.mon("C04.direct.cross-layer")
    expm = [mother, "MyCp", *sorted([cm, "MyCpbar"])] if copied else [mother, cm]
    if p.list_decay_mother_names()[:1] != [mother] or sorted(set(p.list_decay_mother_names()) if twice else p.list_decay_mother_names()) != sorted(expm):
        ctx.violate("cdecay-file:mothers", f"mothers {p.list_decay_mother_names()} expected {expm}", wit)
        return
    if copied:
        def cj(d):
            return {"MyCp": "MyCpbar", "MyCpbar": "MyCp"}.get(d, names.conj(d))

        for tab in (cm, "MyCpbar"):
            g2 = p.list_decay_modes(tab)
            if g2 != [[cj(d) for d in ds] for _, ds in lines]:
                ctx.violate("cdecay-file:copy-and-source-both-conjugated", f"{tab}: {g2} expected {[[cj(d) for d in ds] for _, ds in lines]}", wit)
    got = p.list_decay_modes(cm)
    if len(got) != len(lines):
        ctx.violate("cdecay-file:lines", f"{len(got)} conjugated lines for {len(lines)} source lines", wit)
        return
    for (bf, ds), g in zip(lines, got):
        exp = DecayMode(float(bf), list(ds)).charge_conjugate()
        if Counter(g) != Counter(dict(exp.daughters)):
            ctx.violate("cdecay-file:disagrees-with-mode-conjugate", f"CDecay line {g} vs DecayMode.charge_conjugate {dict(exp.daughters)}", wit)
        # and daughter by daughter, in order, against the table oracle
        if g != [names.conj(d) for d in ds]:
            ctx.violate("cdecay-file:order-or-name", f"CDecay line {g} expected {[names.conj(d) for d in ds]}", wit)
    # both tables of the same object read with their details (branching fraction, daughters), in either order
    order = [mother, cm] if ctx.rng.random() < 0.5 else [cm, mother]
    ctx.hit("cross-layer-file:both-tables-read-with-details:" + ("source-first" if order[0] == mother else "conjugate-first"))

    def details():
        out = {}
        for m in order:
            out[m] = [(d["bf"], list(d["fs"])) for d in p.build_decay_chains(m, stable_particles=[x for _, ds in lines for x in ds] + [names.conj(x) for _, ds in lines for x in ds])[m]]
        return out

    okd, det = ctx.guard("cdecay-file:details", wit, details)
    if okd:
        want = {mother: [(float(bf), list(ds)) for bf, ds in lines], cm: [(float(bf), [names.conj(d) for d in ds]) for bf, ds in lines]}
        for m in order:
            if det[m] != want[m]:
                ctx.violate("cdecay-file:details-differ:" + ("source" if m == mother else "conjugate") + "-table", f"read in the order {order}: {m} gives {det[m]} expected {want[m]}", wit)
    # the visitor itself, on a hand-built tree as in its docstring: once = conjugate, once more (the same tree) = original
    known = [(bf, ds) for bf, ds in lines if all("ChargeConj(" not in names.conj(d) for d in ds)]
    if known and "ChargeConj(" not in cm:
        from lark import Token, Tree  # noqa: PLC0415

        from decaylanguage.dec.dec import ChargeConjugateReplacement  # noqa: PLC0415

        def visitor_twice():
            t = Tree("decay", [Tree("particle", [Token("LABEL", mother)])] + [
                Tree("decayline", [Tree("value", [Token("SIGNED_NUMBER", bf)])] + [Tree("particle", [Token("LABEL", d)]) for d in ds] + [Tree("model", [Token("MODEL_NAME", "PHSP")])])
                for bf, ds in known])

            def read(t):
                return [t.children[0].children[0].value] + [[c.children[0].value for c in ln.children if c.data == "particle"] for ln in t.children[1:]]

            ChargeConjugateReplacement().visit(t)
            once = read(t)
            ChargeConjugateReplacement(charge_conj_defs={}).visit(t)
            return once, read(t)

        okv, res = ctx.guard("visitor-on-a-hand-built-tree", wit, visitor_twice)
        if okv:
            ctx.hit("visitor-applied-twice-to-one-tree")
            once, twice_ = res
            w1 = [cm] + [[names.conj(d) for d in ds] for _, ds in known]
            w2 = [mother] + [list(ds) for _, ds in known]
            if once != w1:
                ctx.violate("visitor:first-visit", f"tree after one visit {once} expected {w1}", wit)
            elif twice_ != w2:
                ctx.violate("visitor:second-visit-is-not-the-original", f"tree after two visits {twice_} expected {w2}", wit)
    for v in contracts.drain():
        ctx.violate(v["mechanism"], v["message"], wit)
    ctx.sample({"file": text, "conjugated_lines": got})


def check_user_table(ctx, pairs_, others):
    """The documented direct use of the .dec conjugation layer with the caller's own table of ChargeConj pairs (what dict_charge_conjugates() returns):
    `find_charge_conjugate_match(name, table)` and the visitor built with `charge_conj_defs=table`.  A pair is read both ways, conjugating twice gives the
    name back, names outside the table go by the particle table."""
    from lark import Token, Tree  # noqa: PLC0415

    from decaylanguage.dec.dec import ChargeConjugateReplacement, find_charge_conjugate_match  # noqa: PLC0415

    table = dict(pairs_)
    wit = {"kind": "user-table", "pairs": [list(x) for x in pairs_], "others": list(others)}
    ctx.case({"user-table": wit["pairs"], "others": wit["others"]}, nontrivial=True, workload="user-table")
    ctx.hit("direct-use-with-the-callers-own-table-of-pairs")
    want = {}
    for a, b in pairs_:
        want[a], want[b] = b, a
    for n in others:
        want.setdefault(n, names.conj(n))
    ctx.mon("C04.direct.user-table")
    for n, w in want.items():
        ok, got = ctx.guard("user-table:match", {**wit, "name": n}, find_charge_conjugate_match, n, dict(table))
        if ok and got != w:
            ctx.violate("user-table:match", f"find_charge_conjugate_match({n!r}, {table!r}) = {got!r} expected {w!r}", {**wit, "name": n})
            return
    names_in = list(want)
    ctx.rng.shuffle(names_in)

    def visit_twice():
        t = Tree("decay", [Tree("particle", [Token("LABEL", names_in[0])]),
                           Tree("decayline", [Tree("value", [Token("SIGNED_NUMBER", "1.0")])] + [Tree("particle", [Token("LABEL", d)]) for d in names_in] + [Tree("model", [Token("MODEL_NAME", "PHSP")])])])

        def read(t):
            return [t.children[0].children[0].value] + [c.children[0].value for c in t.children[1].children if c.data == "particle"]

        ChargeConjugateReplacement(charge_conj_defs=dict(table)).visit(t)
        once = read(t)
        ChargeConjugateReplacement(charge_conj_defs=dict(table)).visit(t)
        return once, read(t)

    if len(table) >= 2:
        # one visitor object kept by the caller; the caller's table (a mapping of his own) fails once while the library reads it -- the visit ends with that
        # exception -- and is healthy afterwards: the next visit of the same visitor conjugates by the table
        class _FlakyTable(dict):
            fails = 1
            after = ctx.rng.randint(0, max(0, len(table) - 1))

            def items(self):
                if self.fails > 0:
                    type(self).fails -= 1

                    def gen(n=self.after):
                        for i, kv in enumerate(dict.items(self)):
                            if i >= n:
                                raise OSError("harness: the caller's table failed while it was read")
                            yield kv
                    return gen()
                return dict.items(self)

        def kept_visitor():
            vis = ChargeConjugateReplacement(charge_conj_defs=_FlakyTable(table))
            rev = [b for _, b in pairs_]           # names that are found by reading a pair backwards
            t1 = Tree("decay", [Tree("particle", [Token("LABEL", rev[-1])]), Tree("decayline", [Tree("value", [Token("SIGNED_NUMBER", "1.0")]), Tree("particle", [Token("LABEL", rev[-1])]), Tree("model", [Token("MODEL_NAME", "PHSP")])])])
            try:
                vis.visit(t1)
            except OSError:
                pass
            t2 = Tree("decay", [Tree("particle", [Token("LABEL", rev[0])]), Tree("decayline", [Tree("value", [Token("SIGNED_NUMBER", "1.0")])] + [Tree("particle", [Token("LABEL", d)]) for d in rev] + [Tree("model", [Token("MODEL_NAME", "PHSP")])])])
            vis.visit(t2)
            return [c.children[0].value for c in t2.children[1].children if c.data == "particle"], rev

        ctx.hit("visitor-kept-after-a-visit-during-which-the-callers-table-failed")
        okk, resk = ctx.guard("user-table:kept-visitor", wit, kept_visitor)
        if okk:
            gotk, rev = resk
            if gotk != [want[d] for d in rev]:
                ctx.violate("user-table:visitor:wrong-after-a-visit-that-failed", f"second visit of the kept visitor gives {gotk} for {rev}, expected {[want[d] for d in rev]}", wit)
    ok, res = ctx.guard("user-table:visitor", wit, visit_twice)
    if ok:
        once, twice = res
        pairmap = {}
        for a, b in pairs_:
            pairmap[a], pairmap[b] = b, a
        w1 = [want[names_in[0]]] + [want[d] for d in names_in]
        # the second visit conjugates what the first one left: by the table where the name is in it (read either way), by the particle table otherwise --
        # which gives the original back, except for a name outside the table whose natural conjugate is a member of one of the caller's pairs
        back = [pairmap.get(x, names.conj(x)) for x in w1]
        if once != w1:
            ctx.violate("user-table:visitor:first-visit", f"after one visit {once} expected {w1}", wit)
        elif any(("ChargeConj(" not in a) and b != c for a, b, c in zip(w1, twice, back)):
            ctx.violate("user-table:visitor:second-visit", f"after two visits {twice} expected {back}", wit)


def run(ctx):
    contracts.arm("conj")
    from decaylanguage.utils.particleutils import charge_conjugate_name as ccn  # noqa: PLC0415

    rng = ctx.rng
    evt = names.evtgen_names()
    pdg = names.pdg_names()
    # enumeration: each worker takes its share, in sorted order (cache cold) and then in a shuffled order (warm / evicting)
    cached = hasattr(ccn, "cache_clear") and hasattr(ccn, "cache_info")
    if cached:
        ccn.cache_clear()
    else:
        # no memoisation on the function (any more): every call computes, the two cache states coincide
        ctx.note("lru_cache", "absent: every call is a cold call")
        ctx.hit("cache-evicting")
    ctx.hit("cache-cold")
    mine_e = [evt[i] for i in ctx.share(len(evt))]
    mine_p = [pdg[i] for i in ctx.share(len(pdg))]
    for n in mine_e:
        check_name(ctx, n, False, "cold")
    for n in mine_p:
        check_name(ctx, n, True, "cold")
    if cached:
        info = ccn.cache_info()
        if info.maxsize is None or info.currsize >= info.maxsize:
            ctx.hit("cache-evicting")
        ctx.note("lru_cache", {"hits": info.hits, "misses": info.misses, "maxsize": info.maxsize})
    sh = mine_e[:] + mine_e[:40]
    rng.shuffle(sh)
    for n in sh:
        check_name(ctx, n, False, "warm")
    shp = mine_p[:]
    rng.shuffle(shp)
    for n in shp[: ctx.pick(200, len(shp))]:
        check_name(ctx, n, True, "warm")
    for i, n in enumerate(UNKNOWN * ctx.pick(1, 3)):
        check_name(ctx, n + ("" if i < len(UNKNOWN) else str(i)), False, "unknown")
    for n in UNKNOWN[:6]:
        check_name(ctx, n, True, "unknown")
    # EvtGen spellings that are no PDG names, asked through the PDG-name route: unknown there, hence wrapped -- not converted behind the caller's back
    pdgset = set(pdg)
    cross = [n for n in mine_e if n not in pdgset]
    for n in cross:
        ctx.hit("evtgen-only-spelling-through-the-pdg-route")
        check_name(ctx, n, True, "cross-scheme")
    # random final states and modes
    for i in range(ctx.pick(500, 5000)):
        usepdg = i % 3 == 0
        pool = pdg if usepdg else evt
        check_mode(ctx, gen_fs(ctx, pool, usepdg), round(rng.uniform(0.001, 1), 6), gen_meta(rng), usepdg)
    # cross-layer files
    pairs = names.antiparticle_pairs()
    for i in range(ctx.pick(40, 400)):
        m, _ = rng.choice(pairs)
        lines = []
        for _ in range(rng.choice([1, 2, 3, 5])):
            ds = [rng.choice(evt) if rng.random() < 0.85 else rng.choice(UNKNOWN[:6]) for _ in range(rng.randint(0, 5))]
            if ds and rng.random() < 0.4:
                ds += [ds[0]] * rng.randint(1, 3)
            ds = [d for d in ds if d not in ("PHOTOS",)]
            lines.append([rng.choice(["1.0", "0.25", ".5", "2E-3"]), ds])
        check_file(ctx, m, lines)
    # the question asked with only a few frames left below the interpreter's recursion limit (deep inside the caller's own recursion): the library's
    # RecursionError is not judged; an answer is -- and so is every later answer for the same name from an ordinary depth (the function is memoised)
    import sys  # noqa: PLC0415

    def deep(n, fn):
        return fn() if n <= 0 else deep(n - 1, fn)

    f_, cur = sys._getframe(), 0
    while f_ is not None:
        cur, f_ = cur + 1, f_.f_back
    sample = [n for n in mine_e if names.kind(n) == "has-antiparticle"][:6] + [n for n in mine_e if names.kind(n) == "self-conjugate"][:2]
    for n in sample:
        want = names.conj(n)
        for left in (2, 3, 4, 5, 6, 8, 11, 15, 30):
            if cached:
                ccn.cache_clear()
            wit = {"kind": "name", "name": n, "pdg_name": False, "asked_with_frames_left": left}
            ctx.case({"n": n, "frames_left": left}, nontrivial=True, workload="few-frames-left")
            ctx.hit("asked-with-few-frames-left")
            try:
                got = deep(max(0, sys.getrecursionlimit() - cur - left), lambda n=n: ccn(n))
            except RecursionError:
                got = None
                ctx.hit("asked-with-few-frames-left:recursion-error:not-judged")
            contracts.drain()
            ctx.mon("C04.direct.few-frames-left")
            if got is not None and got != want:
                ctx.violate("conj-name:wrong-answer-instead-of-a-recursion-error", f"conj({n!r}) asked with {left} frames left = {got!r}, expected {want!r} (or RecursionError)", wit)
            later = ccn(n)
            contracts.drain()
            if later != want:
                ctx.violate("conj-name:wrong-for-good-after-a-call-near-the-recursion-limit", f"conj({n!r}) = {later!r} at an ordinary depth after it had been asked with {left} frames left; expected {want!r}", wit)
                break
    if cached:
        ccn.cache_clear()
    # the caller's own table of ChargeConj pairs handed to the .dec conjugation layer directly
    for i in range(ctx.pick(60, 600)):
        k = rng.choice([1, 1, 2, 3, 5])
        stems = rng.sample(["MyD0", "MyB+", "Mysig", "MyK*0", "MyLambda", "Myphi_sig", "MyJpsi", "MyTau", "MyX", "My_a1"], k)
        pr = []
        for st in stems:
            a, b = (st, "MyAnti-" + st[2:]) if rng.random() < 0.5 else ("anti-" + st, st)
            pr.append((a, b) if rng.random() < 0.5 else (b, a))
        if rng.random() < 0.3:      # an alias paired with a plain table name (one-sided signal alias)
            m_, mb_ = rng.choice(pairs)
            pr.append(("MySig" + str(i), mb_))
        check_user_table(ctx, pr, rng.sample(evt, 3) + rng.sample(UNKNOWN[:6], 1))
    # history: an AmpGen model is read in this interpreter (the library then appends its special particles to the particle table); names mean what they meant
    try:
        from decaylanguage.modeling.amplitudechain import AmplitudeChain  # noqa: PLC0415

        AmplitudeChain.read_ampgen(text="EventType D0 K- pi+ pi+ pi-\nD0{K*(892)bar0{K-,pi+},rho(770)0{pi+,pi-}} 2 1 0 2 0 0\n")
    except Exception as e:  # noqa: BLE001
        ctx.note("ampgen_read_failed", f"{type(e).__name__}: {e}")
    else:
        if cached:
            ccn.cache_clear()
        for n in mine_e:
            ctx.hit("names-again-after-an-ampgen-read-in-the-same-process")
            check_name(ctx, n, False, "after-ampgen-read")
        for n in mine_p[:: 3]:
            check_name(ctx, n, True, "after-ampgen-read")
    for name, n in contracts.COUNTS.items():
        if name.startswith("C04."):
            ctx.mon(name, n)


def replay(ctx, w):
    contracts.arm("conj")
    if w["kind"] == "name":
        check_name(ctx, w["name"], w["pdg_name"], "replay")
    elif w["kind"] == "mode":
        check_mode(ctx, w["fs"], w["bf"], w["meta"], w["pdg_name"])
    elif w["kind"] == "name" and "asked_with_frames_left" in w:
        print("replay: re-run the check; the witness names the name and the number of frames left:", w)
    elif w["kind"] == "user-table":
        check_user_table(ctx, [tuple(x) for x in w["pairs"]], w["others"])
    else:
        check_file(ctx, w["mother"], w["lines"])
