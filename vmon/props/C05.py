"""C05 -- Define'd parameters and ModelAlias'd models mean exactly their expansion.

Monitors: (a) decay tables versus the reference semantics of the abstract model; (b) metamorphic: the
same model rendered with every use textually expanded (alias -> model + parameters of the last
definition, Define'd name -> its value, negated for -name) must give identical decay tables; (c)
dict_definitions() / dict_model_aliases() report the last definition of every name.
"""
from __future__ import annotations

from .. import decgen, names, snapshot
from .. import declang as L

RULE = ("one case per generated file (parsed twice: as written and textually expanded); non-trivial = at least one decay line uses a Define'd name or a "
        "ModelAlias; distinct by hash of the text")
ANCHORS = ["decaylanguage.dec.dec:DecayModelAliasReplacement._replacement", "decaylanguage.dec.dec:DecayModelAliasReplacement.model",
           "decaylanguage.dec.dec:DecayModelParamValueReplacement._replacement", "decaylanguage.dec.dec:DecFileParser._dict_raw_model_aliases",
           "decaylanguage.dec.dec:get_definitions", "decaylanguage.dec.dec:get_model_aliases"]
WORKERS = {"quick": 4, "thorough": 16}
REQUIRED = {"parse-again-after-an-abandoned-parse:answered": 5, "parse-after-a-text-the-grammar-refused-half-way": 10, "file-constructor:2-part-files": 10, "file-constructor:pathlib-path-arguments": 10, "parsed-with-warnings-as-errors:no-warning-surfaced": 10, "alias-used-in>=2-blocks": 20, "alias-with-defined-param-used-in>=2-blocks": 10, "alias-used>=2x-in-one-block": 10, "definition-after-use": 20,
            "redefinition:Define": 20, "redefinition:ModelAlias": 10, "negated-use": 20, "negated-use-of-negative-value": 5, "plus-prefixed-word-stays": 10,
            "undefined-word-stays": 20, "use-in-copied-table": 10, "use-in-conjugated-table": 10, "define-used>=4x": 10, "expanded-text-parsed": 50,
            "alias-with-photos": 5, "define-unused": 5, "second-parse-same-instance": 20, "user-model-registered": 20, "alias-name-extends-a-published-model-name": 20}
PUBLISHED_PREFIXES = ("ISGW2", "HQET2", "SLPOLE", "PHSP", "SLBKPOLE", "VSS", "ISGW", "HQET")
ASSUMPTIONS = ["Define'd names do not start with '-' or '+' (they may end in a sign); a ModelAlias stands for a published model (not for another alias)"]


def gen_file(ctx):
    r = ctx.rng
    g = decgen.Gen(r)
    pairs = [(a, b) for a, b in names.antiparticle_pairs() if a in g.real and b in g.real]
    # names over the whole label alphabet, also ending in a sign, and words Python's float() would read (inf, nan): they are names here
    dn = r.sample(["dm", "x", "y_1", "beta", "gam", "CKMphase", "w0", "H-", "K*", "x+", "inf", "nan", "Infinity", "a/b", "q'", "H+", "eps(1)~"], r.choice([0, 1, 2, 3, 5]))
    defines = []
    for n in dn:
        defines.append({"k": "Define", "name": n, "value": g.numlit()})
        if r.random() < 0.35:
            defines.append({"k": "Define", "name": n, "value": r.choice(["0.25", "-1.5", "3", "7e-1"])})
            if r.random() < 0.4:
                defines.append(dict(defines[-2]))       # ... and once more, word for word as the first time: the last statement still decides
    # alias names, also ones that extend a published model name by a digit / underscore / letters (one word of the language all the same)
    an = r.sample(["MA0", "MyVSS", "AliasX", "slpole_1", "HQETtune", "ISGW2_Dstlnu", "HQET2_Dlnu", "SLPOLE2", "PHSP_1", "SLBKPOLE_DtoKlnu", "VSS1", "ISGW22", "PHSP0",
                   "vss", "Helamp", "phsp", "Svs_cp", "isgw2"],      # the language is case-sensitive: these are labels, not models
                  r.choice([0, 1, 2, 3, 4, 6]))
    an = [n for n in an if L.label_ok(n, g.models)]
    aliases = []

    def plist(k):
        out = []
        for _ in range(k):
            x = r.random()
            if x < 0.35:
                out.append(g.numlit())
            elif x < 0.6 and dn:
                out.append(r.choice(dn))
            elif x < 0.75 and dn:
                out.append("-" + r.choice(dn))
            elif x < 0.82 and dn:
                out.append("+" + r.choice(dn))
            elif x < 0.88 and dn:
                out.append(r.choice(["--", "---", "-+"]) + r.choice(dn))       # not a defined name and not the negation of one: a word of its own
            else:
                out.append(r.choice(["undefinedWord", "zz", "-qq", "phase", "alpha_s", "K*-", "H--", "x+-", "NaN", "-inf", "dm-", "beta+"]))
        return out

    for n in an:
        aliases.append({"k": "ModelAlias", "name": n, "model": r.choice(g.models), "params": plist(r.choice([0, 1, 2, 4]))})
        if r.random() < 0.3:
            aliases.append({"k": "ModelAlias", "name": n, "model": r.choice(g.models), "params": plist(r.choice([0, 2]))})
    blocks = []
    used = set()
    for _ in range(r.choice([1, 2, 2, 3, 4, 5])):
        m, c = r.choice(pairs)
        if m in used or c in used:
            continue
        used |= {m, c}
        lines = []
        for _ in range(r.choice([1, 2, 3, 4, 6])):
            fs = [r.choice(g.real) for _ in range(r.choice([1, 2, 3]))]
            if an and r.random() < 0.5:
                lines.append({"bf": g.bflit(), "fs": fs, "photos": r.random() < 0.25, "model": r.choice(an), "params": []})
            else:
                lines.append({"bf": g.bflit(), "fs": fs, "photos": r.random() < 0.25, "model": g.next_model(), "params": plist(r.choice([0, 1, 2, 3, 5]))})
        blocks.append({"k": "Decay", "m": m, "lines": lines})
    extra = []
    if blocks and r.random() < 0.4:
        extra.append({"k": "CopyDecay", "a": "CopyOf" + str(len(blocks)), "b": r.choice(blocks)["m"]})
    if blocks and r.random() < 0.5:
        extra.append({"k": "CDecay", "name": names.conj(r.choice(blocks)["m"])})
    stmts = decgen.interleave(r, defines, aliases, blocks, extra)
    if r.random() < 0.6:
        # keep same-name definitions in their relative order only by chance: the language is order-free, last wins
        r.shuffle(stmts)
    return stmts


def expand(stmts, drop_definitions):
    """The same file with every use replaced by what it stands for (values written with repr(float))."""
    defs, mal = {}, {}
    for s in stmts:
        if s["k"] == "Define":
            defs[s["name"]] = L.num(s["value"])
        elif s["k"] == "ModelAlias":
            mal[s["name"]] = (s["model"], list(s["params"]))

    def P(p):
        if L.isnum(p):
            return p
        neg = p[0] == "-"
        w = p[1:] if neg else p
        if w in defs:
            return repr(-defs[w] if neg else defs[w])
        return p

    out = []
    for s in stmts:
        if s["k"] == "Decay":
            lines = []
            for ln in s["lines"]:
                model, params = ln["model"], ln["params"]
                if model in mal:
                    model, params = mal[model]
                lines.append(dict(ln, model=model, params=[P(p) for p in params]))
            out.append(dict(s, lines=lines))
        elif s["k"] in ("Define", "ModelAlias") and drop_definitions:
            continue
        else:
            out.append(s)
    return out


def classify(ctx, stmts, exp):
    defs = {s["name"] for s in stmts if s["k"] == "Define"}
    mal = {}
    for s in stmts:
        if s["k"] == "ModelAlias":
            mal[s["name"]] = s
    defcount = {}
    for s in stmts:
        if s["k"] == "Define":
            defcount[s["name"]] = defcount.get(s["name"], 0) + 1
    if any(v > 1 for v in defcount.values()):
        ctx.hit("redefinition:Define")
    mc = {}
    for s in stmts:
        if s["k"] == "ModelAlias":
            mc[s["name"]] = mc.get(s["name"], 0) + 1
    if any(v > 1 for v in mc.values()):
        ctx.hit("redefinition:ModelAlias")
    alias_blocks, duse = {}, {}
    first_use = None
    seen_m = set()
    for i, s in enumerate(stmts):
        if s["k"] != "Decay" or s["m"] in seen_m:
            continue
        seen_m.add(s["m"])
        inblock = {}
        for ln in s["lines"]:
            ps = list(ln["params"])
            if ln["model"] in mal:
                alias_blocks.setdefault(ln["model"], set()).add(s["m"])
                inblock[ln["model"]] = inblock.get(ln["model"], 0) + 1
                ps = mal[ln["model"]]["params"]
                if ln["photos"]:
                    ctx.hit("alias-with-photos")
                if any(ln["model"].startswith(pm) and ln["model"] != pm for pm in PUBLISHED_PREFIXES):
                    ctx.hit("alias-name-extends-a-published-model-name")
                first_use = i if first_use is None else first_use
            for p in ps:
                w = p[1:] if p[0] in "-+" else p
                if w in defs:
                    first_use = i if first_use is None else first_use
                    if p[0] == "-":
                        ctx.hit("negated-use")
                        if exp["defs"][w] < 0:
                            ctx.hit("negated-use-of-negative-value")
                    elif p[0] == "+":
                        ctx.hit("plus-prefixed-word-stays")
                    else:
                        duse[w] = duse.get(w, 0) + 1
                elif not L.isnum(p):
                    ctx.hit("undefined-word-stays")
        if any(v >= 2 for v in inblock.values()):
            ctx.hit("alias-used>=2x-in-one-block")
    for a, bl in alias_blocks.items():
        if len(bl) >= 2:
            ctx.hit("alias-used-in>=2-blocks")
            if any((p[1:] if p[0] in "-+" else p) in defs for p in mal[a]["params"]):
                ctx.hit("alias-with-defined-param-used-in>=2-blocks")
    if any(v >= 4 for v in duse.values()):
        ctx.hit("define-used>=4x")
    if defs - set(duse):
        ctx.hit("define-unused")
    if first_use is not None and any(s["k"] in ("Define", "ModelAlias") and i > first_use for i, s in enumerate(stmts)):
        ctx.hit("definition-after-use")

    def uses(lines_src):
        return any(ln["model"] in mal or any((p[1:] if p[0] in "-+" else p) in defs for p in ln["params"]) for ln in lines_src)

    blocks = {}
    for s in stmts:
        if s["k"] == "Decay":
            blocks.setdefault(s["m"], s["lines"])
    conj = L.file_conj(exp["cc"])
    for s in stmts:
        if s["k"] == "CopyDecay" and s["b"] in blocks and uses(blocks[s["b"]]):
            ctx.hit("use-in-copied-table")
        if s["k"] == "CDecay" and s["name"] in exp["derived"] and conj(s["name"]) in blocks and uses(blocks[conj(s["name"])]):
            ctx.hit("use-in-conjugated-table")
    return bool(alias_blocks or duse)


def check(ctx, stmts, workload="gen"):
    text = L.render(stmts)
    exp = L.expected(stmts)
    nontrivial = classify(ctx, stmts, exp)
    wit = {"kind": "generated", "text": text}
    ctx.case(text, nontrivial, workload)
    um = ()
    if ctx.rng.random() < 0.25:
        # a user-registered model next to the published ones (not used by any line): definitions and aliases mean what they meant
        um = ("MY_USER_MODEL", "SLBKPOLE2")
        ctx.hit("user-model-registered")
        wit["user_models"] = list(um)
    if ctx.rng.random() < 0.2:
        # earlier in the process another text was refused by the grammar half-way down (a line without its model) -- after Define statements for the very
        # words this file leaves undefined, and for some it defines differently; same registered models
        words = sorted({pw.lstrip("-+") for st in stmts if st["k"] == "Decay" for ln in st["lines"] for pw in ln["params"] if not L.isnum(pw) and L.label_ok(pw.lstrip("-+") or "x")})[:8]
        names_ = [w_ for w_ in words if w_] + ["dm", "CKMgamma"]
        bad = "".join(f"Define {w_} {0.111 * (k_ + 1):.3f}\n" for k_, w_ in enumerate(names_)) + ctx.rng.choice(["Define oops = 1.0\n", "Decay B0sig\n1.0 K+ pi- PHSP\nEnddecay\n", "Decay B0sig\n1.0 K+ pi- PHSP;\nEnddecay extra\n", "Alias\n"])
        ctx.hit("parse-after-a-text-the-grammar-refused-half-way")
        wit["earlier_refused_text"] = bad
        try:
            snapshot.make_parser(bad, None, um)
        except Exception:  # noqa: BLE001, S110
            pass
        else:
            ctx.note("refused-text-was-accepted", bad)
    ok, res = ctx.guard("parse", wit, snapshot.make_parser, text, None, um)
    if not ok:
        return
    p, _ = res
    ctx.mon("C05.tables_match_expansion_semantics")
    for mech, msg in snapshot.compare_tables(p, exp):
        ctx.violate(mech, msg, wit)
    for mech, msg in snapshot.compare_globals(p, exp):
        if mech in ("globals:dict_definitions", "globals:dict_model_aliases", "globals:dict_definitions:raised", "globals:dict_model_aliases:raised"):
            ctx.violate(mech, msg, wit)
    ctx.mon("C05.last_definition_reported")
    twin = ctx.rng.random()
    if twin < 0.25:
        # the same statements through the file constructor, given as several files (str or Path), parts not ending in a line end
        ok4, res4 = ctx.guard("parse-part-files", wit, snapshot.parse_as_part_files, ctx, text, um)
        if ok4:
            w4 = {**wit, **res4[2]}
            for mech, msg in snapshot.compare_tables(res4[0], exp) + [x for x in snapshot.compare_globals(res4[0], exp) if x[0].startswith(("globals:dict_definitions", "globals:dict_model_aliases"))]:
                ctx.violate("part-files:" + mech, msg, w4)
    elif twin < 0.35:
        # the first parse() of a fresh object is abandoned somewhere in the library (Ctrl-C), the object is parsed again: the same tables
        ok6, p6 = ctx.guard("parse-after-abandoned-parse", wit, snapshot.parse_after_an_interrupted_parse, ctx, text, um)
        if ok6 and p6 is not None:
            for mech, msg in snapshot.compare_tables(p6, exp):
                ctx.violate("after-an-abandoned-parse:" + mech, msg, wit)
    elif twin < 0.5:
        # a fresh object parsing the same text while warnings are errors: either the warning surfaces, or the tables are the same ones
        ok5, p5 = ctx.guard("parse-under-error-filter", wit, snapshot.parse_under_error_filter, text, um)
        if ok5 and p5 is not None:
            ctx.hit("parsed-with-warnings-as-errors:no-warning-surfaced")
            for mech, msg in snapshot.compare_tables(p5, exp):
                ctx.violate("warnings-as-errors:" + mech, msg, wit)
        elif ok5:
            ctx.hit("parsed-with-warnings-as-errors:warning-surfaced:not-judged")
            if snapshot.REFUSED:
                bad = snapshot.answers_after_a_refused_parse(snapshot.REFUSED[0], exp)
                ctx.hit("object-asked-after-its-parse-was-refused:" + ("says-it-is-not-parsed" if bad is None else "answers"))
                for mech, msg in (bad or []):
                    ctx.violate("answers-after-a-refused-parse:" + mech, msg, wit)
    if ctx.rng.random() < 0.35:
        # the same object parsed again (supported; it only warns): uses are expanded again, to the same tables
        import warnings  # noqa: PLC0415

        ctx.hit("second-parse-same-instance")

        def again():
            with warnings.catch_warnings():
                warnings.simplefilter("ignore")
                p.parse()
            return snapshot.compare_tables(p, exp)

        ok2, bad = ctx.guard("second-parse", wit, again)
        for mech, msg in (bad or []):
            ctx.violate("after-second-parse:" + mech, msg, wit)
    # metamorphic: textual expansion
    drop = ctx.rng.random() < 0.5
    text2 = L.render(expand(stmts, drop))
    ctx.hit("expanded-text-parsed")
    w2 = {**wit, "expanded_text": text2}
    ok, res2 = ctx.guard("parse-expanded", w2, snapshot.make_parser, text2)
    if not ok:
        return
    p2, _ = res2
    ctx.mon("C05.same_tables_as_textual_expansion")
    t1, t2 = snapshot.tables(p), snapshot.tables(p2)
    if list(t1) != list(t2):
        ctx.violate("expansion:mothers-differ", f"{list(t1)} vs expanded {list(t2)}", w2)
    else:
        for m in t1:
            if L.typed(t1[m]) != L.typed(t2[m]):
                ctx.violate("expansion:table-differs", f"{m}: {t1[m]!r} vs expanded {t2[m]!r}", w2)
                break
    if len(ctx.samples) < 3 and nontrivial:
        ctx.sample({"text": text, "expanded": text2})


def run(ctx):
    for _ in range(ctx.pick(130, 1500)):
        check(ctx, gen_file(ctx))
        if len(ctx.violations) >= ctx.max_violations:
            return


def replay(ctx, w):
    check(ctx, L.read(w["text"], L.published_models()), "replay")
