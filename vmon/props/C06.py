"""C06 -- every supported model name is recognised as itself; unknown models are rejected.

W-enum: each published name in every position context (bare / with parameters / after PHOTOS / directly
followed by ';' / newline-wrapped parameters) with neighbouring labels (daughters, parameter words, alias
names) that extend it by letters, digits and '_'; all ordered prefix pairs of published names side by
side in one table; all published names again after registering user names (one or several registration
calls).  W-gen: user-registered names over letters, digits, '_', '-' and the regex-special label
characters . + * ( ), colliding with prefixes / extensions of published names.  Near-miss words that are
neither published, registered nor aliased must make parse() raise.
"""
from __future__ import annotations

import re

from .. import snapshot
from .. import declang as L

RULE = ("acceptance: one case per generated file (15-40 decay lines, one per (model name, context)); rejection: one case per near-miss word (its own tiny file); "
        "non-trivial = acceptance file has >= 1 line whose neighbours extend the model name, or the word is one edit away from a supported name")
ANCHORS = ["decaylanguage.dec.dec:DecFileParser.load_additional_decay_models", "decaylanguage.dec.dec:DecFileParser._generate_edit_terminals_callback",
           "decaylanguage.dec.dec:DecayModelAliasReplacement._replacement", "decaylanguage.dec.dec:get_model_name"]
WORKERS = {"quick": 4, "thorough": 16}
CONTEXTS = ["bare", "params", "photos", "photos+params", "wrapped", "extended-daughters", "extended-params", "space-before-semicolon"]
REQUIRED = {"copied-object:grammar-deepcopy-register-on-the-copy": 3, "copied-object:register-deepcopy": 3, "copied-object:register-pickle": 3, "copied-object:original-without-the-names-refuses": 2, **{f"context:{c}": 135 for c in CONTEXTS}, "published-name-in-all-contexts": 1, "prefix-pairs-all": 1, "published-after-user-registration": 135,
            "user-name": 200, "user-name:special-char:.": 3, "user-name:special-char:+": 3, "user-name:special-char:*": 3, "user-name:special-char:(": 3,
            "user-name:ends-in-nonword": 5, "user-name:extends-published": 20, "user-name:prefix-of-published": 20, "registration:several-calls": 20, "user-names:shorter-then-longer-through-dash": 5, "user-name:starts-with-a-digit": 10, "model-alias-of-a-registered-model": 10, "registration:published-name-among-the-new-ones": 10, "registration-after-a-refused-parse": 10, "registered-names-second-parse": 20, "grammar-accessed-before-registration": 10, "grammar-accessed-between-registrations": 5, "grammar-accessed-after>=2-registrations-and-before-another": 3, "crlf-text": 10,
            "near-miss-rejected": 300, "near-miss:dot-replaced": 3, "near-miss:alias-misspelled": 5, "near-miss:alias-of-an-earlier-file": 5, "near-miss:registered-on-another-instance": 20, "alias-name-extends-model": 20}
EXHAUSTIVE_NOTE = "all 135 published names x 8 contexts and all ordered prefix pairs are enumerated across the workers in every run"
ASSUMPTIONS = ["labels next to model names extend them by letters, digits or '_' only (PHSP-x is, by the language's own tokenisation, PHSP with parameter -x)",
               "models are registered before parsing"]

DAUGHTERS = ["pi+", "pi-", "K+", "K-", "gamma", "e+", "nu_e", "D0", "rho0", "mu-"]
_seen_ctx: set = set()


def prefix_pairs(models):
    return [(a, b) for a in models for b in models if a != b and b.startswith(a)]


def ext_label(rng, model, allmodels):
    for _ in range(50):
        s = model + rng.choice(["x", "X7", "_1", "9", "_", "q_2", "Z", "0"])
        if L.label_ok(s, allmodels) and s not in allmodels:
            return s
    return None


def lines_for(rng, model, context, allmodels):
    d = lambda k: [rng.choice(DAUGHTERS) for _ in range(k)]  # noqa: E731
    ln = {"bf": "0.1", "fs": d(rng.choice([0, 1, 2, 3])), "photos": False, "model": model, "params": []}
    if context == "params":
        ln["params"] = ["1.0", "x", "-0.5"]
    elif context == "photos":
        ln["photos"] = True
    elif context == "photos+params":
        ln["photos"] = True
        ln["params"] = ["2", "beta"]
    elif context == "wrapped":
        ln["params"] = ["1.0", "2.0", "w"]
        ln["wrap"] = True
    elif context == "extended-daughters":
        e = [ext_label(rng, model, allmodels) for _ in range(2)]
        ln["fs"] = [x for x in e if x] + d(1)
    elif context == "extended-params":
        e = [ext_label(rng, model, allmodels) for _ in range(2)]
        ln["params"] = ["0.5", *[x for x in e if x]]
    elif context == "space-before-semicolon":
        ln["space_before_semicolon"] = True
    return ln


def labels_of(stmts):
    out = []
    for s in stmts:
        if s["k"] == "Decay":
            out.append(s["m"])
            for ln in s["lines"]:
                out += ln["fs"] + [p for p in ln["params"] if not L.isnum(p)]
        elif s["k"] == "Alias":
            out += [s["a"], s["b"]]
    return out


def check_accept(ctx, stmts, user_calls, label, nontrivial=True):
    um = tuple(x for call in user_calls for x in call)
    text = L.render(stmts)
    if ctx.rng.random() < 0.3:
        text = text.replace("\n", "\r\n")        # CRLF line ends (string construction keeps them): the model name may be the last word of its line
        ctx.hit("crlf-text")
    wit = {"kind": "accept", "text": text, "user_calls": [list(c) for c in user_calls], "label": label}
    ctx.case({"text": text, "calls": [list(c) for c in user_calls]}, nontrivial, "enum" if label != "user" else "gen")
    exp = L.expected(stmts)
    gfirst = bool(user_calls) and ctx.rng.random() < 0.35
    if gfirst and len(user_calls) >= 3 and ctx.rng.random() < 0.7:
        gfirst = ctx.rng.randint(1, len(user_calls) - 1)     # grammar() between the registrations: k calls before it, the others after
        ctx.hit("grammar-accessed-between-registrations")
        if gfirst >= 2:
            ctx.hit("grammar-accessed-after>=2-registrations-and-before-another")
        wit["grammar_first"] = gfirst
    elif gfirst:
        ctx.hit("grammar-accessed-before-registration")
        wit["grammar_first"] = True
    late = bool(user_calls) and not gfirst and ctx.rng.random() < 0.25
    if late:
        # history: the text is parsed once before the names are registered (that parse is refused), then the names are registered and it is parsed again
        ctx.hit("registration-after-a-refused-parse")
        wit["parse_before_registration"] = True

        def late_registration():
            import warnings  # noqa: PLC0415
            from decaylanguage import DecFileParser  # noqa: PLC0415

            q = DecFileParser.from_string(text)
            try:
                with warnings.catch_warnings():
                    warnings.simplefilter("ignore")
                    q.parse()
            except Exception:  # noqa: BLE001
                ctx.hit("first-parse-refused")
            for call in user_calls:
                q.load_additional_decay_models(*call)
            with warnings.catch_warnings():
                warnings.simplefilter("ignore")
                q.parse()
            return q, []

        ok, res = ctx.guard("parse-supported-model:registered-after-refused-parse", wit, late_registration)
    elif user_calls and not gfirst and ctx.rng.random() < 0.3:
        # history with a copy of the object: (a) grammar read, object deep-copied, the names registered on the COPY, the copy parsed
        # (the original, which never had them, still refuses them); (b) names registered, object copied (deepcopy / pickle / copy), the copy parsed
        how = ctx.rng.choice(["grammar-deepcopy-register-on-the-copy", "register-deepcopy", "register-pickle", "register-copy"])
        ctx.hit("copied-object:" + how)
        wit["copied_object"] = how

        def copied():
            import copy  # noqa: PLC0415
            import pickle  # noqa: PLC0415
            import warnings  # noqa: PLC0415
            from decaylanguage import DecFileParser  # noqa: PLC0415

            q = DecFileParser.from_string(text)
            extra = []
            with warnings.catch_warnings():
                warnings.simplefilter("ignore")
                if how.startswith("grammar"):
                    q.grammar()
                    c = copy.deepcopy(q)
                    for call in user_calls:
                        c.load_additional_decay_models(*call)
                    c.parse()
                    try:
                        q.parse()
                    except Exception:  # noqa: BLE001
                        ctx.hit("copied-object:original-without-the-names-refuses")
                    else:
                        pub = set(L.published_models())
                        used = {d["model"] for m in q.list_decay_mother_names() for d in q.build_decay_chains(m, stable_particles=[x for fs in q.list_decay_modes(m) for x in fs])[m]}
                        if [x for x in used if x in um and x not in pub]:
                            extra.append(("unknown-model-accepted:registered-on-a-copy-only", f"the original object never had {um} registered and reports models {sorted(used)}"))
                else:
                    for call in user_calls:
                        q.load_additional_decay_models(*call)
                    c = copy.deepcopy(q) if how == "register-deepcopy" else pickle.loads(pickle.dumps(q)) if how == "register-pickle" else copy.copy(q)
                    c.parse()
            return c, extra

        ok, res = ctx.guard("parse-supported-model:copied-object", wit, copied)
        if ok:
            for mech, msg in res[1]:
                ctx.violate(mech, msg, wit)
    else:
        ok, res = ctx.guard("parse-supported-model", wit, snapshot.make_parser, text, None, um, True, user_calls if user_calls else None, gfirst)
    if not ok:
        return False
    p, _ = res
    ctx.mon("C06.model_reported_verbatim")
    bad = snapshot.compare_tables(p, exp)
    for mech, msg in bad:
        ctx.violate("model-" + mech, msg, wit)
    for mech, msg in snapshot.compare_globals(p, exp):
        if mech.startswith("globals:dict_aliases"):
            ctx.violate("model-" + mech, msg, wit)
    if user_calls and not bad:
        # registered names stay registered: parsing the same instance again must give the same tables
        ctx.hit("registered-names-second-parse")
        import warnings  # noqa: PLC0415

        def again():
            with warnings.catch_warnings():
                warnings.simplefilter("ignore")
                p.parse(include_ccdecays=False)
                p.parse()
            return snapshot.compare_tables(p, exp)

        ok2, bad2 = ctx.guard("parse-supported-model:second-parse", wit, again)
        for mech, msg in (bad2 or []):
            ctx.violate("model-second-parse-" + mech, msg, wit)
    return not bad


def check_reject(ctx, word, user_calls=(), params=False, alias=None, why="near-miss"):
    um = tuple(x for call in user_calls for x in call)
    text = (f"ModelAlias {alias} PHSP;\n" if alias else "") + f"Decay B0\n  1.0 pi+ pi- {word}{' 1.0 2.0' if params else ''};\nEnddecay\n"
    wit = {"kind": "reject", "word": word, "text": text, "user_calls": [list(c) for c in user_calls]}
    ctx.case({"reject": text, "calls": [list(c) for c in user_calls]}, True, "near-miss")
    ctx.mon("C06.unknown_model_rejected")
    try:
        p, _ = snapshot.make_parser(text, None, um, True, user_calls if user_calls else None)
    except Exception:  # noqa: BLE001  any error is what the property asks for
        ctx.hit("near-miss-rejected")
        ctx.hit(why) if why != "near-miss" else None
        return
    got = snapshot.tables(p)
    ctx.violate("unknown-model-accepted:" + why, f"model word {word!r} was accepted; tables: {got!r}", wit)


def user_names(rng, models):
    out = []
    base = rng.choice(models)
    kinds = ["random", "random", "extends", "prefix", "dash", "special", "ends-nonword", "digit-first"]
    k = rng.choice(kinds)
    if k == "random":
        out = "".join(rng.choice("ABCDEFGHXYZ") for _ in range(rng.randint(3, 6))) + rng.choice(["", "_1", "2", "_v2"])
    elif k == "extends":
        out = base + rng.choice(["_X", "X", "2", "_NEW", "-v2", "_"])
    elif k == "prefix":
        dashed = [m for m in models if "-" in m]
        if dashed and rng.random() < 0.3:
            out = rng.choice(dashed).split("-")[0]        # the part of a published name in front of its '-' (CB3PI of CB3PI-MPP)
        else:
            out = base[: max(3, len(base) - rng.randint(1, 2))] if len(base) > 3 else base + "Q"
    elif k == "dash":
        out = rng.choice(["MY-MODEL", "A-B-C", "NEW-" + base, base + "-MOD"])
    elif k == "digit-first":
        out = rng.choice(["3BODY_FLAT", "2HDM-TYPE2", "4PI", "0NUBB", "5D_x"]) if rng.random() < 0.9 else "3" + base
    elif k == "special":
        out = rng.choice(["MY.MODEL", "MOD+X", "M*STAR", "MOD(1)", "A.B.C", "X+Y+Z", "F(x)G", "ST*R*"])
    else:
        out = rng.choice(["MYM-", "MODP+", "SPEC*", "DOT.", "PAR(1)", base + "-"])
    return out, k


def run(ctx):
    rng = ctx.rng
    models = list(L.published_models())
    n = len(models)
    # ---- every published name in every context (enumerated: model i belongs to shard i % nshards)
    mine = [m for i, m in enumerate(models) if ctx.mine(i)]
    for batch_start in range(0, len(mine), 5):
        batch = mine[batch_start: batch_start + 5]
        stmts = []
        for j, m in enumerate(batch):
            lines = []
            for c in CONTEXTS:
                lines.append(lines_for(rng, m, c, models))
                ctx.hit("context:" + c)
                _seen_ctx.add((m, c))
            stmts.append({"k": "Decay", "m": f"M{batch_start + j}x", "lines": lines})
            e = ext_label(rng, m, models)
            if e:
                stmts.append({"k": "Alias", "a": e, "b": "pi+"})
                ctx.hit("alias-name-extends-model")
        check_accept(ctx, stmts, (), "contexts")
    ctx.note("name_contexts_seen", sorted(f"{m}|{c}" for m, c in _seen_ctx)[:0] + [len(_seen_ctx)])
    ctx.note("name_context_pairs", len(_seen_ctx))
    # ---- prefix pairs side by side
    pp = prefix_pairs(models)
    minepp = [x for i, x in enumerate(pp) if ctx.mine(i)]
    if minepp:
        lines = []
        for a, b in minepp:
            lines += [lines_for(rng, a, "bare", models), lines_for(rng, b, "params", models), lines_for(rng, b, "bare", models), lines_for(rng, a, "wrapped", models)]
        check_accept(ctx, [{"k": "Decay", "m": "B0", "lines": lines}], (), "prefix-pairs")
    ctx.note("prefix_pairs_checked", len(minepp))
    ctx.note("prefix_pairs_total", len(pp) if ctx.shard == 0 else 0)
    # ---- user-registered names; after registration all published names again
    for it in range(ctx.pick(70, 600)):
        names_k = []
        for _ in range(rng.choice([1, 1, 2, 3, 5])):
            u, kind = user_names(rng, models)
            if u in models or any(x[0] == u for x in names_k):
                continue
            names_k.append((u, kind))
        if not names_k:
            continue
        if rng.random() < 0.15:
            # a registered pair, the shorter name first, the longer one continuing it through '-'
            stem = "MYGEN" + rng.choice(["", "A", "_2"])
            if not any(x[0] in (stem, stem + "-V2") for x in names_k):
                names_k = [(stem, "random"), (stem + "-V2", "dash"), *names_k]
                ctx.hit("user-names:shorter-then-longer-through-dash")
        um = [u for u, _ in names_k]
        allm = models + um
        if not all(L.label_ok(d, allm) for d in DAUGHTERS + ["B0", "x", "beta", "w"]):
            continue
        calls = [tuple(um)] if rng.random() < 0.4 or len(um) == 1 else ([tuple(um[:1]), tuple(um[1:])] if len(um) == 2 or rng.random() < 0.4 else [(u,) for u in um])
        if len(calls) > 1:
            ctx.hit("registration:several-calls")
        if rng.random() < 0.3:
            # a published name listed among the new ones (harmless: it is known already)
            j = rng.randrange(len(calls))
            c = list(calls[j])
            c.insert(rng.randint(0, len(c)), rng.choice(models))
            calls[j] = tuple(c)
            ctx.hit("registration:published-name-among-the-new-ones")
        lines = []
        for u, kind in names_k:
            ctx.hit("user-name")
            for ch in ".+*(":
                if ch in u:
                    ctx.hit("user-name:special-char:" + ch)
            if not re.match(r"[A-Za-z0-9_]", u[-1]):
                ctx.hit("user-name:ends-in-nonword")
            if kind == "digit-first":
                ctx.hit("user-name:starts-with-a-digit")
            if kind == "extends":
                ctx.hit("user-name:extends-published")
            if kind == "prefix":
                ctx.hit("user-name:prefix-of-published")
            for c in rng.sample(["bare", "params", "photos", "wrapped", "space-before-semicolon"], 3):
                lines.append(lines_for(rng, u, c, allm))
        # published names again (rotating slice so that all 135 are re-checked many times per run)
        start = (it * 9 + ctx.shard * 31) % n
        for m in (models[start:] + models[:start])[:9]:
            lines.append(lines_for(rng, m, rng.choice(["bare", "params", "photos"]), allm))
            ctx.hit("published-after-user-registration")
        # the published names that a user name extends / truncates, right next to it
        for u, kind in names_k:
            for m in models:
                if m != u and (u.startswith(m) or m.startswith(u)):
                    lines.append(lines_for(rng, m, "params", allm))
        stmts = [{"k": "Decay", "m": "B0", "lines": lines}]
        if it % 3 == 0:
            # a ModelAlias standing for a *registered* model, used by a line: the line reports the registered name and the alias' parameters
            u0 = um[0]
            stmts.insert(rng.choice([0, 1]), {"k": "ModelAlias", "name": "MyUserAlias", "model": u0, "params": ["1.0", "x"]})
            lines.append({"bf": "0.125", "fs": ["pi+", "pi-"], "photos": rng.random() < 0.5, "model": "MyUserAlias", "params": []})
            ctx.hit("model-alias-of-a-registered-model")
        if not all(L.label_ok(x, allm) for x in labels_of(stmts)):
            continue
        okk = check_accept(ctx, stmts, calls, "user")
        if it < 2:
            ctx.sample({"registered": um, "text": L.render(stmts)[:1500]})
        # names registered on one parser are not known to another parser of the same interpreter
        if okk:
            for u in um[:3]:
                # only names over letters, digits and '_' (PHSP-X unregistered is, by the language, PHSP with parameter -X)
                if u not in models and re.fullmatch(r"[A-Za-z_][A-Za-z0-9_]*", u):
                    check_reject(ctx, u, (), why="near-miss:registered-on-another-instance")
        # with a name containing '.', the same name with '.' replaced by a letter must be rejected
        for u in um:
            if "." in u and okk:
                w = u.replace(".", "x")
                if w not in allm:
                    check_reject(ctx, w, calls, why="near-miss:dot-replaced")
    # ---- a ModelAlias of one file is not defined in the next file parsed in the same interpreter
    for j in range(ctx.pick(6, 40)):
        lab = f"LeakAlias{j % 3}"
        stmts = [{"k": "ModelAlias", "name": lab, "model": rng.choice(models), "params": ["1.0"]},
                 {"k": "Decay", "m": "B0", "lines": [{"bf": "1.0", "fs": ["pi+", "pi-"], "photos": False, "model": lab, "params": []}]}]
        if check_accept(ctx, stmts, (), "alias"):
            check_reject(ctx, lab, (), why="near-miss:alias-of-an-earlier-file")
    # ---- near-miss unknown words
    k = 0
    target = ctx.pick(110, 700)
    while k < target:
        m = rng.choice(models)
        how = rng.choice(["truncate", "extend", "change", "case", "double"])
        if how == "truncate" and len(m) > 2:
            w = m[:-1]
        elif how == "extend":
            w = m + rng.choice(["X", "_", "2", "x", "_CP"])
        elif how == "change":
            i = rng.randrange(len(m))
            w = m[:i] + rng.choice("QJ7_") + m[i + 1:]
        elif how == "case":
            w = m.lower() if m.lower() != m else m.upper()
        else:
            w = m + m
        if w in models or not re.fullmatch(r"[A-Za-z_][A-Za-z0-9_]*", w) or w in L.RESERVED or L.FLOATWORDS.match(w):
            continue
        k += 1
        if k % 10 == 0:
            check_reject(ctx, w, (), alias=w + "q", why="near-miss:alias-misspelled")
        else:
            check_reject(ctx, w, (), params=(k % 3 == 0))


def finish(merged):
    if merged["notes"].get("name_context_pairs", 0) >= 135 * len(CONTEXTS):
        merged["classes"]["published-name-in-all-contexts"] = 1
    if merged["notes"].get("prefix_pairs_checked", 0) >= merged["notes"].get("prefix_pairs_total", 1) > 0:
        merged["classes"]["prefix-pairs-all"] = 1


def replay(ctx, w):
    calls = [tuple(c) for c in w["user_calls"]]
    um = tuple(x for c in calls for x in c)
    if w["kind"] == "accept":
        stmts = L.read(w["text"].replace("\r\n", "\n"), L.published_models(), um)
        check_accept(ctx, stmts, calls, "replay")
    else:
        try:
            p, _ = snapshot.make_parser(w["text"], None, um, True, calls or None)
        except Exception:  # noqa: BLE001
            print("rejected, as the property demands")
            return
        ctx.violate("unknown-model-accepted", f"{w['word']!r} accepted: {snapshot.tables(p)!r}", w)
