"""C07 -- global declarations are reported completely, later declarations winning.

W-gen: 0..8 statements of each of the 14 kinds, any order and position relative to Decay blocks, with a
quota of repeated names per kind, integer / float / word values, signed numbers, names over the whole
label alphabet.  Oracle: dict semantics computed from statement order (declang.expected), types compared
exactly.  W-corpus: the shipped files against the independent reference reader.
"""
from __future__ import annotations

import os

from .. import core, decgen, names, snapshot
from .. import declang as L
from . import C01

KINDS = ["Alias", "ChargeConj", "Define", "CopyDecay", "CDecay", "Particle", "Pythia", "JetSet", "LS", "BW", "CM", "INC", "LSPW", "Photos"]
RULE = ("one case per generated or corpus file; all eleven global queries are compared with the reference; non-trivial = the file has >= 3 global statements; "
        "distinct by hash of the text")
ANCHORS = ["decaylanguage.dec.dec:get_definitions", "decaylanguage.dec.dec:get_aliases", "decaylanguage.dec.dec:get_charge_conjugate_defs",
           "decaylanguage.dec.dec:get_decays2copy_statements", "decaylanguage.dec.dec:get_charge_conjugate_decays",
           "decaylanguage.dec.dec:get_particle_property_definitions", "decaylanguage.dec.dec:get_pythia_definitions", "decaylanguage.dec.dec:get_jetset_definitions",
           "decaylanguage.dec.dec:get_lineshape_settings", "decaylanguage.dec.dec:get_lineshapePW_definitions", "decaylanguage.dec.dec:get_global_photos_flag"]
WORKERS = {"quick": 4, "thorough": 16}
WTESTS = {"groups": ['parse'], "tests": ['tests/dec'], "counts": ["C01.parse."]}
REQUIRED = {"second-parse-same-instance": 30, "particle:width-default-via-alias-declared-for-two-particles": 5, "copydecay-source-is-another-copy": 10, "multi-file:part-without-final-newline": 10, "queries-asked-twice-with-returned-values-edited": 50, **{f"kind:{k}": 20 for k in KINDS}, **{f"repeated:{k}": 8 for k in KINDS if k not in ("LSPW", "LS", "BW", "CM", "INC", "Photos")},
            "repeated-lineshape-setting(must-raise)": 10, "lineshape:several-kinds-one-particle": 10, "photos:absent": 10, "photos:one": 10, "photos:several-last-differs": 5,
            "photos:three-or-more": 5, "particle:width-default-real": 10, "particle:width-default-via-alias": 10, "particle:alias-name-reused-across-files": 5, "particle:explicit-width": 10,
            "jetset:int": 10, "jetset:float": 10, "jetset:signed": 5, "pythia:number": 10, "pythia:word": 10, "statements-between-blocks": 20,
            "statements>=5-of-one-kind": 10, "split-over-several-files": 20, "corpus-file": 15}
ASSUMPTIONS = ["Particle statements without a width are only generated for names whose reference width is in the particle data table",
               "key order of the returned dictionaries is not part of the statement"]


def gen_file(ctx):
    r = ctx.rng
    g = decgen.Gen(r)
    widthnames = [n for n in g.real if (names.ref_width_gev(n) or -1) >= 0]
    st = []
    keys = {k: [] for k in KINDS}
    hits = []

    def count(k):
        return r.choice([0, 0, 1, 1, 2, 3, 5, 8])

    def key(kind, fresh):
        """re-use a previously declared name of this kind (quota) or take a fresh one"""
        if keys[kind] and r.random() < 0.35:
            hits.append("repeated:" + kind)
            return r.choice(keys[kind])
        k = fresh()
        keys[kind].append(k)
        return k

    alias_real = {}
    for _ in range(count("Alias")):
        a = key("Alias", (lambda: r.choice(["MyRes", "MyA", "Sig0"])) if r.random() < 0.3 else g.label)
        t = r.choice(widthnames) if r.random() < 0.6 else g.name()
        st.append({"k": "Alias", "a": a, "b": t})
        alias_real[a] = t
    for _ in range(count("ChargeConj")):
        st.append({"k": "ChargeConj", "a": key("ChargeConj", g.label), "b": g.label()})
    for _ in range(count("Define")):
        st.append({"k": "Define", "name": key("Define", lambda: r.choice(["dm", "x", "y_1", "beta", g.label(odd=False)])), "value": g.numlit()})
    for _ in range(count("CopyDecay")):
        src = g.label()
        if keys["CopyDecay"] and r.random() < 0.3:
            src = r.choice(keys["CopyDecay"])          # a copy of a copy: reported verbatim (the source is the other statement's new name)
            hits.append("copydecay-source-is-another-copy")
        st.append({"k": "CopyDecay", "a": key("CopyDecay", g.label), "b": src})
    for _ in range(count("CDecay")):
        st.append({"k": "CDecay", "name": key("CDecay", g.label)})
    for _ in range(count("Pythia")):
        s = g.misc("Pythia")
        kk = key("Pythia", lambda: (s["cmd"], s["mod"], s["par"]))
        s["cmd"], s["mod"], s["par"] = kk
        st.append(s)
        hits.append("pythia:number" if L.isnum(s["value"]) else "pythia:word")
    for _ in range(count("JetSet")):
        s = g.misc("JetSet")
        kk = key("JetSet", lambda: (s["name"], s["idx"]))
        s["name"], s["idx"] = kk
        st.append(s)
        import re  # noqa: PLC0415

        hits.append("jetset:int" if re.fullmatch(r"[+-]?\d+", s["value"]) else "jetset:float")
        if s["value"][0] in "+-":
            hits.append("jetset:signed")
    # lineshape family: by quota several *different* settings for one particle (fine) or a repeated setting (must raise)
    lsnames = [r.choice(widthnames), g.label(), "rho0", "MyX"]
    settings = set()
    for kind in ("LS", "BW", "CM", "INC"):
        for _ in range(r.choice([0, 0, 1, 2])):
            s = g.misc(kind)
            s["name"] = r.choice(lsnames)
            sk = (s["name"], {"LS": "lineshape", "BW": "BlattWeisskopf"}.get(kind, s.get("cmd")))
            if sk in settings:
                if r.random() < 0.6:
                    continue      # most files stay free of repeated settings
                hits.append("repeated-lineshape-setting(must-raise)")
            settings.add(sk)
            st.append(s)
    byname = {}
    for n, _ in settings:
        byname[n] = byname.get(n, 0) + 1
    if any(v >= 3 for v in byname.values()):
        hits.append("lineshape:several-kinds-one-particle")
    for _ in range(count("LSPW")):
        st.append(g.misc("LSPW"))
    nph = r.choice([0, 0, 1, 1, 2, 3, 4])
    flags = [r.random() < 0.5 for _ in range(nph)]
    for f in flags:
        st.append({"k": "Photos", "on": f})
    hits.append("photos:absent" if nph == 0 else ("photos:one" if nph == 1 else ("photos:several-last-differs" if flags[-1] != flags[0] else "photos:several")))
    if nph >= 3:
        hits.append("photos:three-or-more")
    for _ in range(count("Particle")):
        x = r.random()
        if x < 0.35:
            n = key("Particle", lambda: r.choice(widthnames))
            st.append({"k": "Particle", "name": n, "mass": g.numlit().lstrip("-"), "width": None})
            hits.append("particle:width-default-real" if n not in alias_real else "particle:explicit-width")
        elif x < 0.6 and [a for a, t in alias_real.items() if t in widthnames]:
            n = r.choice([a for a, t in alias_real.items() if t in widthnames])
            # the alias must finally point to a real particle: all its declarations do
            if all(s["b"] in widthnames for s in st if s["k"] == "Alias" and s["a"] == n):
                keys["Particle"].append(n)
                if r.random() < 0.5:
                    # the alias is declared once more, for another particle: the later declaration decides whose width is reported
                    st.append({"k": "Alias", "a": n, "b": r.choice(widthnames)})
                if len({x["b"] for x in st if x["k"] == "Alias" and x["a"] == n}) >= 2:
                    hits.append("particle:width-default-via-alias-declared-for-two-particles")
                st.append({"k": "Particle", "name": n, "mass": "1.5", "width": None})
                hits.append("particle:width-default-via-alias")
                if n in ("MyRes", "MyA", "Sig0"):
                    hits.append("particle:alias-name-reused-across-files")
        else:
            n = key("Particle", g.name)
            st.append({"k": "Particle", "name": n, "mass": g.numlit(), "width": g.numlit()})
            hits.append("particle:explicit-width")
    r.shuffle(st)
    blocks = [g.decay(f"Mo{i}" + g.label(odd=False), nlines=r.choice([0, 1, 2])) for i in range(r.choice([0, 1, 2, 3]))]
    stmts = decgen.interleave(r, st, blocks)
    if blocks and len(st) >= 2:
        hits.append("statements-between-blocks")
    return stmts, hits


def check(ctx, stmts, text, wit, workload, um=(), files=None, hits=()):
    exp = L.expected(stmts)
    nglob = sum(1 for s in stmts if s["k"] not in ("Decay", "ModelAlias", "End"))
    ctx.case(text if files is None else files, nglob >= 3, workload)
    per = {}
    for s in stmts:
        k = s["k"]
        if k in KINDS:
            ctx.hit("kind:" + k)
            per[k] = per.get(k, 0) + 1
    if any(v >= 5 for v in per.values()):
        ctx.hit("statements>=5-of-one-kind")
    for h in hits:
        ctx.hit(h)
    ok, res = ctx.guard("parse", wit, snapshot.make_parser, text if files is None else None, files, um)
    if not ok:
        return
    p, _ = res
    if files is None and len(stmts) >= 4 and ctx.rng.random() < 0.35:
        # the same statements split over 2-3 input files passed in order: declarations of a later file win
        import os  # noqa: PLC0415

        from .. import core as _core  # noqa: PLC0415

        ctx.hit("split-over-several-files")
        d = os.path.join(os.environ.get("VMON_RUN_DIR") or _core.WORK, f"c07-{os.getpid()}")
        os.makedirs(d, exist_ok=True)
        k = ctx.rng.choice([2, 3])
        cuts = sorted(ctx.rng.sample(range(1, len(stmts)), k - 1))
        parts = [stmts[a:b] for a, b in zip([0, *cuts], [*cuts, len(stmts)])]
        paths = []
        for part in parts:
            while True:      # random names (their order must not matter), distinct within one case
                name = "".join(ctx.rng.choice("abcdefghijklmnopqrstuvwxyz0123456789_") for _ in range(ctx.rng.randint(1, 9))) + ".dec"
                pth = os.path.join(d, name)
                if pth not in paths:
                    break
            body = L.render(part)
            style = ctx.rng.choice(["newline", "newline", "no-final-newline", "ends-in-comment-without-newline"])
            if part is not parts[-1] or ctx.rng.random() < 0.5:
                if style == "no-final-newline":
                    body = body.rstrip("\n")
                elif style == "ends-in-comment-without-newline":
                    body = body + "# end of this part"
                if style != "newline":
                    ctx.hit("multi-file:part-without-final-newline")
            with open(pth, "w", encoding="utf-8") as fh:
                fh.write(body)
            paths.append(pth)
        w2 = {**wit, "files": [os.path.basename(x) for x in paths], "parts": [L.render(x) for x in parts]}
        ok2, res2 = ctx.guard("parse-multi-file", w2, snapshot.make_parser, None, paths, um)
        if ok2:
            for mech, msg in snapshot.compare_globals(res2[0], exp):
                ctx.violate("multi-file:" + mech, msg, w2)
    ctx.mon("C07.queries_match_statement_order_semantics")
    first = snapshot.compare_globals(p, exp)
    for mech, msg in first:
        ctx.violate(mech, msg, wit)
    if not first and ctx.rng.random() < 0.5:
        # every query asked a second time on the same object, the values returned the first time edited in between
        ctx.hit("queries-asked-twice-with-returned-values-edited")
        snapshot.edit_returned_values(p)
        for mech, msg in snapshot.compare_globals(p, exp):
            ctx.violate("asked-again:" + mech, msg, wit)
    if not first and ctx.rng.random() < 0.3:
        # the same object parsed again (with the other value of the switch, and back): every statement is still accounted for
        import warnings  # noqa: PLC0415

        ctx.hit("second-parse-same-instance")

        def again():
            with warnings.catch_warnings():
                warnings.simplefilter("ignore")
                p.parse(include_ccdecays=False)
                # parsed without conjugated tables: the statements of the text are reported all the same (only the *tables* are not made)
                off = [("switch-off:" + a, b) for a, b in snapshot.compare_globals(p, exp)]
                p.parse()
            return off + snapshot.compare_globals(p, exp)

        ok9, bad9 = ctx.guard("second-parse", wit, again)
        for mech, msg in (bad9 or []):
            ctx.violate("after-second-parse:" + mech, msg, wit)
    if files is None:
        for mech, msg in snapshot.compare_tables(p, exp):
            ctx.violate("with-globals:" + mech, msg, wit)
    # every statement accounted for: sizes
    ctx.mon("C07.every_statement_accounted_for")
    n_lspw = sum(1 for s in stmts if s["k"] == "LSPW")
    try:
        if len(p.list_lineshapePW_definitions()) != n_lspw or len(p.list_charge_conjugate_decays()) != sum(1 for s in stmts if s["k"] == "CDecay"):
            ctx.violate("globals:statement-count", "number of SetLineshapePW / CDecay statements reported differs from the text", wit)
    except Exception:  # noqa: BLE001  already reported by compare_globals
        pass
    if len(ctx.samples) < 3 and nglob >= 5 and files is None:
        ctx.sample({"text": text, "expected": {k: exp[k] for k in ("aliases", "defs", "pythia", "jetset", "photos", "particle")}})


def run(ctx):
    for _ in range(ctx.pick(130, 1500)):
        stmts, hits = gen_file(ctx)
        text = L.render(stmts)
        check(ctx, stmts, text, {"kind": "generated", "text": text}, "gen", hits=hits)
        if len(ctx.violations) >= ctx.max_violations:
            return
    for i, (f, um) in enumerate(C01.corpus_files()):
        if not ctx.mine(i) or "/models/" in f:
            continue
        with open(f, encoding="utf-8") as fh:
            text = fh.read()
        try:
            stmts = L.read(text + "\n", L.published_models(), um)
        except L.Unsupported:
            continue
        ctx.hit("corpus-file")
        check(ctx, stmts, None, {"kind": "corpus", "file": os.path.relpath(f, core.REPO), "user_models": list(um)}, "corpus", um, files=[f])


def replay(ctx, w):
    if w["kind"] == "generated":
        check(ctx, L.read(w["text"], L.published_models()), w["text"], w, "replay")
    else:
        f = os.path.join(core.REPO, w["file"])
        with open(f, encoding="utf-8") as fh:
            stmts = L.read(fh.read() + "\n", L.published_models(), tuple(w["user_models"]))
        check(ctx, stmts, None, w, "replay", tuple(w["user_models"]), files=[f])
