"""C08 -- copied and derived tables are independent; queries never change the parser.

History checker on one DecFileParser instance: after *every* step of a history of public queries, chain
building, expansion, printing, in-place mutation of returned values and re-parsing, the full snapshot
of the instance must equal the snapshot of a freshly constructed and parsed instance of the same text.
Plus: CopyDecay NEW OLD equality / usability as CDecay source against the reference semantics, and the
structural invariant `derived tables own their nodes` (identity walk over the hooked private state at
the quiescent point after each parse()) -- sharing between a copy and its source is invisible to every
public query, only the identity walk shows it.
"""
from __future__ import annotations

import contextlib
import io
import itertools
import json
import warnings

from .. import decgen, names, snapshot
from .. import declang as L

OPS = ["mothers", "modes", "global", "chains", "chains_stable", "expand", "print", "repr", "grammar", "number", "mutate", "mutate_deep", "reparse", "reparse_off_on",
       "other_instance", "abandoned_query", "refused_query"]
RULE = ("one case = one history (text, operation sequence) on one parser instance, compared with a fresh instance after every step; non-trivial = the history "
        "contains a mutation of a returned value or a re-parse, and the file has >= 1 derived table; distinct by hash of (text, operations)")
ANCHORS = ["decaylanguage.dec.dec:DecFileParser._add_decays_to_be_copied", "decaylanguage.dec.dec:DecFileParser._add_charge_conjugate_decays",
           "decaylanguage.dec.dec:DecFileParser.parse", "decaylanguage.dec.dec:DecFileParser.build_decay_chains",
           "decaylanguage.dec.dec:DecFileParser.expand_decay_modes", "decaylanguage.dec.dec:DecFileParser.print_decay_modes"]
WORKERS = {"quick": 8, "thorough": 16}
REQUIRED = {"file:copy-of-a-block-without-lines": 3, **{f"op:{o}": 30 for o in OPS}, "mutated:list": 20, "mutated:dict": 20, "mutated:nested-chain": 20, "mutated:list-of-lists": 10,
            "file:CopyDecay+CDecay": 10, "file:copy-is-cdecay-source": 5, "file:two-copies-of-one-source": 5, "file:every-line-indented": 5, "file:copy-without-source-among-other-copies": 5, "copy-semantics-without-conjugates": 10, "file:first-block-is-an-alias-and-copy-source": 5, "file:alias-pair-with-changing-partner": 10, "identity-walk:derived-tables": 20, "reparse": 30, "steps-compared": 1000,
            "exhaustive-short-histories": 100}
EXHAUSTIVE_NOTE = "all histories of length 2 (quick) / 3 (thorough) over the 15 operation kinds on 5 fixed files"
ASSUMPTIONS = ["grammar_info() returns the live options dict by design: it is called but never mutated", "a CopyDecay source is a Decay-block mother"]


def gen_file(ctx, fixed=None):
    import random  # noqa: PLC0415

    r = ctx.rng if fixed is None else random.Random(f"C08-fixed-{fixed}")
    g = decgen.Gen(r)
    pairs = [(a, b) for a, b in names.antiparticle_pairs() if a in g.real and b in g.real]
    n = r.choice([2, 3, 4, 5])
    ms = []
    used = set()
    while len(ms) < n:
        a, b = r.choice(pairs)
        if a not in used and b not in used:
            used |= {a, b}
            ms.append(a)
    stable = [x for x in ["pi+", "pi-", "K+", "gamma", "e-", "nu_e", "K_L0", "mu+", "p+"] if x not in used] or ["gamma"]
    stmts = [{"k": "Define", "name": "dm", "value": "0.507e12"}, {"k": "ModelAlias", "name": "MyHel", "model": "HELAMP", "params": ["1.0", "0.0", "dm"]}]
    for i, m in enumerate(ms):
        lines = []
        for _ in range(r.choice([1, 2, 3]) if i else r.choice([2, 3, 4])):
            fs = [r.choice(ms[i + 1:] + stable[:3]) if ms[i + 1:] and r.random() < 0.6 else r.choice(stable) for _ in range(r.choice([1, 2, 3]))]
            mod = r.choice([("PHSP", []), ("MyHel", []), ("VSS_BMIX", ["dm"]), ("SVS", []), ("HELAMP", ["1.0", "-dm"])])
            lines.append({"bf": r.choice(["1.0", "0.5", ".25", "2E-3", "1", "+0.125", "20.e-2", "0.0314", "1e-5", "0.3333"]), "fs": fs, "photos": r.random() < 0.3, "model": mod[0], "params": list(mod[1])})
        stmts.append({"k": "Decay", "m": m, "lines": lines})
    hits = []
    first_alias = None
    if fixed is None and r.random() < 0.3:
        # the first Decay block of the text belongs to an alias of a particle that has its own block further down; the alias is the copy source
        first_alias = "MyFirst"
        tgt = r.choice(ms)
        stmts.append({"k": "Alias", "a": first_alias, "b": tgt})
        stmts.append({"k": "Decay", "m": first_alias, "lines": [{"bf": "0.75", "fs": [r.choice(stable), r.choice(stable)], "photos": False, "model": "PHSP", "params": []},
                                                               {"bf": "0.25", "fs": [r.choice(stable)], "photos": True, "model": "MyHel", "params": []}]})
        hits.append("file:first-block-is-an-alias-and-copy-source")
    if fixed is None and r.random() < 0.4:
        # an aliased pair whose partner name changes from file to file (same interpreter): conjugation follows *this* file's ChargeConj statements
        x = r.choice(["MyD0", "MyD0tag", "MySigD0", "TagD0"])
        stmts += [{"k": "Alias", "a": x, "b": "D0"}, {"k": "Alias", "a": "MyAntiD0", "b": "anti-D0"},
                  {"k": "ChargeConj", "a": x, "b": "MyAntiD0"} if r.random() < 0.7 else {"k": "ChargeConj", "a": "MyAntiD0", "b": x}]
        for st in stmts:
            if st["k"] == "Decay" and r.random() < 0.7:
                st["lines"].append({"bf": "0.011", "fs": ["MyAntiD0", r.choice(stable), x] if r.random() < 0.5 else ["MyAntiD0"], "photos": False, "model": "PHSP", "params": []})
        hits.append("file:alias-pair-with-changing-partner")
    if r.random() < 0.8 or fixed is not None:
        old = first_alias or r.choice(ms)
        stmts.append({"k": "CopyDecay", "a": "MyCopy", "b": old})
        if r.random() < 0.5:
            stmts.append({"k": "CopyDecay", "a": "MyCopy2", "b": old})      # two copies of one source
            hits.append("file:two-copies-of-one-source")
        if r.random() < 0.6 or fixed is not None:
            stmts += [{"k": "ChargeConj", "a": "MyCopy", "b": "MyCopybar"}, {"k": "CDecay", "name": "MyCopybar"}]
            hits.append("file:copy-is-cdecay-source")
    if fixed is None and any(st["k"] == "CopyDecay" for st in stmts) and r.random() < 0.35:
        # a CopyDecay whose source has no Decay block when copies are made (it exists through CDecay only, or not at all): no table for it, the others unaffected
        stmts.insert(r.randrange(len(stmts)), {"k": "CopyDecay", "a": "MyMissing", "b": r.choice([names.conj(ms[0]), "NoSuchParticle"])})
        hits.append("file:copy-without-source-among-other-copies")
    if fixed is None and r.random() < 0.25:
        # a particle declared stable through a Decay block without lines, and a copy of that (empty) table: the copy has a table too, without lines
        e = next((x for x in ["K_S0", "Lambda0", "n0", "mu-", "tau-"] if x not in used), None)
        if e:
            stmts += [{"k": "Decay", "m": e, "lines": []}, {"k": "CopyDecay", "a": "MyStableCopy", "b": e}]
            hits.append("file:copy-of-a-block-without-lines")
    for m in r.sample(ms, r.choice([1, 2])):
        stmts.append({"k": "CDecay", "name": names.conj(m)})
    if any(s["k"] == "CopyDecay" for s in stmts):
        hits.append("file:CopyDecay+CDecay")
    head, rest = stmts[:2], stmts[2:]
    r.shuffle(rest)
    if first_alias:
        blk = next(st for st in rest if st["k"] == "Decay" and st["m"] == first_alias)
        rest.remove(blk)
        rest.insert(next(i for i, st in enumerate(rest) if st["k"] == "Decay"), blk)
    return head + rest if r.random() < 0.5 else rest + head, hits


def identity_walk(p):
    """ids of Tree/Token objects per decay table; a derived table must not share any with another table."""
    trees = getattr(p, "_parsed_decays", None)
    if trees is None:
        return None
    n_block = None
    ids = []
    for t in trees:
        s = set()
        stack = [t]
        while stack:
            x = stack.pop()
            if id(x) in s:
                continue
            s.add(id(x))
            for c in getattr(x, "children", ()) or ():
                if hasattr(c, "children") or hasattr(c, "type"):
                    stack.append(c)
        ids.append(s)
    return ids, n_block


def snap(p, ms):
    return json.dumps(snapshot.full(p, chains_for=ms[:2], expand_for=ms[:1], print_for=ms[:1]), sort_keys=True, default=repr)


class Hist:
    def __init__(self, ctx, text, nblock, derived, hits=()):
        self.ctx, self.text, self.nblock, self.derived = ctx, text, nblock, derived
        self.hits = hits
        self.p = None
        self.last = None

    def fresh(self, include_cc):
        p, _ = snapshot.make_parser(self.text, None, (), include_cc)
        return p

    def walk(self, p, wit):
        res = identity_walk(p)
        if res is None:
            self.ctx.hit("identity-walk:state-not-observable")
            return
        ids, _ = res
        self.ctx.hit("identity-walk:derived-tables")
        for i in range(self.nblock, len(ids)):
            for j in range(len(ids)):
                if i != j and ids[i] & ids[j]:
                    self.ctx.violate("derived-table-shares-nodes-with-another-table",
                                     f"table #{i} (derived) shares {len(ids[i] & ids[j])} tree/token objects with table #{j}", wit)
                    return

    def run(self, ops, workload):
        ctx = self.ctx
        r = ctx.rng
        wit = {"kind": "history", "text": self.text, "ops": ops}
        nontrivial = bool(self.derived) and any(o in ("mutate", "mutate_deep", "reparse", "reparse_off_on") for o in ops)
        ctx.case({"text": self.text, "ops": ops}, nontrivial, workload)
        for h in self.hits:
            ctx.hit(h)
        ok, p0 = ctx.guard("fresh-parse", wit, self.fresh, True)
        if not ok:
            return
        ms = list(p0.list_decay_mother_names())
        ok, S_on = ctx.guard("fresh-snapshot", wit, snap, p0, ms)
        if not ok:
            return
        p = None
        if workload != "enum" and r.random() < 0.12:
            # the object of this history had its first parse() abandoned somewhere in the library's code (Ctrl-C) and was then parsed again
            ok, p = ctx.guard("parse-after-abandoned-parse", wit, snapshot.parse_after_an_interrupted_parse, ctx, self.text)
            if ok and p is not None:
                wit["first_parse_of_the_object_was_abandoned"] = True
        if p is None:
            p = self.fresh(True)
        self.walk(p, wit)
        if wit.get("first_parse_of_the_object_was_abandoned"):
            # (only then: a snapshot at the start asks every per-mother question once, which would hide a look-up table built at the first question)
            ok, s_start = ctx.guard("history:snapshot-raised:at-the-start", wit, snap, p, ms)
            if ok and s_start != S_on:
                ctx.violate("history:differs-from-fresh:at-the-start", diff_keys(S_on, s_start), wit)
                return
        mode_on = True
        S_off = None
        last = None
        for i, op in enumerate(ops):
            ctx.hit("op:" + op)
            try:
                with warnings.catch_warnings():
                    warnings.simplefilter("ignore")
                    m = ms[i % len(ms)] if ms else None
                    if op == "mothers":
                        last = p.list_decay_mother_names()
                    elif op == "modes":
                        last = p.list_decay_modes(m)
                    elif op == "global":
                        q = snapshot.GLOBAL_QUERIES[(i + len(ops)) % len(snapshot.GLOBAL_QUERIES)]
                        try:
                            last = getattr(p, q)()
                        except RuntimeError:
                            last = None
                    elif op == "chains":
                        last = p.build_decay_chains(m)
                    elif op == "chains_stable":
                        st = r.sample(ms, min(len(ms), 2))
                        last = p.build_decay_chains(m, stable_particles=r.choice([list, tuple, set])(st))
                    elif op == "expand":
                        last = p.expand_decay_modes(m)
                    elif op == "print":
                        buf = io.StringIO()
                        with contextlib.redirect_stdout(buf):
                            kw = r.choice([{}, {"normalize": True}, {"scale": 0.5}, {"ascending": True}, {"print_model": False}, {"display_photos_keyword": False}])
                            if "scale" in kw and not p.list_decay_modes(m):
                                kw = {}      # rescaling a table without lines is outside what the printing property (C16: 1..n lines) covers; the library refuses it
                            p.print_decay_modes(m, **kw)
                        last = None
                    elif op == "repr":
                        last = None
                        repr(p), str(p)
                    elif op == "grammar":
                        p.grammar()
                        p.grammar_info()
                        last = None
                    elif op == "number":
                        _ = p.number_of_decays
                        last = None
                    elif op == "mutate":
                        mutate(ctx, last, deep=False)
                    elif op == "mutate_deep":
                        mutate(ctx, last, deep=True)
                    elif op == "abandoned_query":
                        # a query abandoned at a random line of the library's own code (Ctrl-C in the middle of it): the parser is what it was
                        from .. import trace  # noqa: PLC0415

                        fp = trace.Failpoint.get()
                        which = r.choice(["chains", "expand", "print", "modes", "global"])
                        fn = {"chains": lambda: p.build_decay_chains(m), "expand": lambda: p.expand_decay_modes(m),
                              "print": lambda: _quiet_print(p, m), "modes": lambda: p.list_decay_modes(m),
                              "global": lambda: [getattr(p, q)() for q in ("dict_aliases", "dict_definitions", "dict_model_aliases", "list_charge_conjugate_decays")]}[which]
                        _, n = fp.count(fn)
                        status, _where = fp.inject(r.randint(1, max(1, n)), fn)
                        ctx.hit("query-abandoned-at-a-random-line:" + status)
                        last = None
                    elif op == "refused_query":
                        # a question the library legitimately refuses (unknown particle, contradictory print options): the refusal changes nothing
                        which = r.choice(["chains", "expand", "modes", "print-contradictory", "print-unknown"])
                        try:
                            if which == "chains":
                                p.build_decay_chains("NoSuchParticle" + str(i))
                            elif which == "expand":
                                p.expand_decay_modes("NoSuchParticle" + str(i))
                            elif which == "modes":
                                p.list_decay_modes("NoSuchParticle" + str(i))
                            elif which == "print-contradictory":
                                _quiet_print(p, m, normalize=True, scale=0.5)
                            else:
                                _quiet_print(p, "NoSuchParticle" + str(i))
                        except Exception:  # noqa: BLE001, S110   the refusal itself is not what this property is about
                            ctx.hit("query-refused-by-the-library")
                        last = None
                    elif op == "other_instance":
                        # another parser instance in the same interpreter (other text, shared names): must not disturb this one
                        q = other_instance(ctx, self.text, i)
                        last = q.build_decay_chains(q.list_decay_mother_names()[0]) if q.list_decay_mother_names() else None
                    elif op == "reparse":
                        p.parse(mode_on) if not mode_on else p.parse()
                        ctx.hit("reparse")
                        self.walk(p, wit)
                    elif op == "reparse_off_on":
                        p.parse(include_ccdecays=False)
                        ctx.hit("reparse")
                        if S_off is None:
                            S_off = snap(self.fresh(False), ms)
                        s_mid = snap(p, ms)
                        if s_mid != S_off:
                            ctx.violate("history:differs-from-fresh:after-parse(include_ccdecays=False)", diff_keys(S_off, s_mid), {**wit, "step": i})
                        # the names that only the conjugated tables carried are gone: asked for, they are not found
                        gone = [x for x in ms if x not in set(p.list_decay_mother_names())]
                        for x in gone[:3]:
                            try:
                                still = p.list_decay_modes(x)
                            except Exception:  # noqa: BLE001, S112
                                continue
                            ctx.violate("history:table-still-answered-after-parse(include_ccdecays=False)", f"list_decay_modes({x!r}) = {still!r} although {x} is no longer among the mothers", {**wit, "step": i})
                        p.parse()
                        self.walk(p, wit)
            except Exception as e:  # noqa: BLE001
                ctx.violate("history:step-raised:" + op + ":" + type(e).__name__, f"step {i} {op}: {type(e).__name__}: {e}", {**wit, "step": i})
                return
            ctx.hit("steps-compared")
            ok, s = ctx.guard("history:snapshot-raised:after-" + op, {**wit, "step": i}, snap, p, ms)
            if not ok:
                return
            if s != S_on:
                ctx.violate("history:differs-from-fresh:after-" + op, f"after step {i} ({op}): " + diff_keys(S_on, s), {**wit, "step": i})
                return
        ctx.mon("C08.history_equals_fresh_instance")


_others: dict = {}


def _quiet_print(p, m, **kw):
    buf = io.StringIO()
    with contextlib.redirect_stdout(buf):
        p.print_decay_modes(m, **kw)
    return buf.getvalue()


def other_instance(ctx, text, i):
    """A second DecFileParser over a *variation* of the text: first Decay block dropped, a Define changed, one more user model registered."""
    key = (hash(text), i % 3)
    stmts = L.read(text, L.published_models())
    blocks = [s for s in stmts if s["k"] == "Decay"]
    if i % 3 == 0 and len(blocks) > 1:
        stmts = [s for s in stmts if s is not blocks[0]]
    elif i % 3 == 1:
        stmts = [dict(s, value="0.25") if s["k"] == "Define" else s for s in stmts]
    else:
        stmts = [dict(s, b=blocks[-1]["m"]) if s["k"] == "CopyDecay" and blocks else s for s in stmts]
    from decaylanguage import DecFileParser  # noqa: PLC0415

    q = DecFileParser.from_string(L.render(stmts))
    q.load_additional_decay_models("OTHER_MODEL")
    q.parse()
    q.dict_definitions()
    q.dict_aliases()
    _others[key] = q        # kept alive, so that instance-level and module-level state both persist
    return q


def diff_keys(a, b):
    a, b = json.loads(a), json.loads(b)
    out = []
    for k in a:
        if a[k] != b.get(k):
            if isinstance(a[k], dict) and isinstance(b.get(k), dict):
                out.append(k + ":" + ",".join(str(x) for x in a[k] if a[k][x] != b[k].get(x))[:200])
            else:
                out.append(k)
    return "snapshot differs in " + "; ".join(out)


def mutate(ctx, v, deep):
    """In-place modification of a value a query returned."""
    if v is None:
        return
    if isinstance(v, list):
        if deep and v and isinstance(v[0], list):
            v[0].append("junk")
            v[0].sort()
            ctx.hit("mutated:list-of-lists")
        elif deep and v and isinstance(v[0], tuple) and v[0] and isinstance(v[0][0], list):
            v[0][0].append("junk")
            ctx.hit("mutated:list-of-lists")
        else:
            v.append("junk")
            v.sort(key=repr)
            if len(v) > 2:
                del v[0]
        ctx.hit("mutated:list")
    elif isinstance(v, dict):
        keys = list(v)
        if deep and keys:
            k = keys[0]
            x = v[k]
            if isinstance(x, list) and x and isinstance(x[0], dict):   # a decay chain: {mother: [mode, ...]}
                mode = x[0]
                if isinstance(mode.get("fs"), list):
                    mode["fs"].append("junk")
                    for d in mode["fs"]:
                        if isinstance(d, dict):
                            for sub in d.values():
                                if sub and isinstance(sub[0], dict):
                                    sub[0]["bf"] = -1.0
                                    sub[0]["fs"] = []
                if isinstance(mode.get("model_params"), list):
                    mode["model_params"].append(99.0)
                mode["bf"] = -5.0
                mode["model"] = "JUNK"
                x.append({"bf": 0, "fs": []})
                ctx.hit("mutated:nested-chain")
            elif isinstance(x, dict):
                x["junk"] = 1
                x.clear()
            elif isinstance(x, list):
                x.append("junk")
        v["junk"] = "junk"
        if keys:
            del v[keys[-1]]
        ctx.hit("mutated:dict")


def run(ctx):
    # exhaustive short histories on fixed files
    L_ex = ctx.pick(2, 3)
    fixed = []
    for k in range(5):
        stmts, hits = gen_file(ctx, fixed=k)
        exp = L.expected(stmts)
        fixed.append((L.render(stmts), len(exp["order"]), list(exp["derived"]), hits, exp))
    idx = 0
    for fk, (text, nb, der, hits, exp) in enumerate(fixed):
        for ops in itertools.product(OPS, repeat=L_ex):
            idx += 1
            if not ctx.mine(idx):
                continue
            ctx.hit("exhaustive-short-histories")
            Hist(ctx, text, nb, der, hits).run(list(ops), "enum")
            if len(ctx.violations) >= ctx.max_violations:
                return
    # random histories on generated files; CopyDecay semantics against the reference
    for i in range(ctx.pick(40, 600)):
        stmts, hits = gen_file(ctx)
        text = L.render(stmts)
        if i % 3 == 1:
            # the same statements laid out differently: every line indented, other spacing (nothing a table depends on)
            from .. import layout  # noqa: PLC0415

            text = layout.render(layout.rewrite(layout.segments(text, L.published_models()), ctx.rng, ["indent", "space"], p=1.0))
            hits = [*hits, "file:every-line-indented"]
        exp = L.expected(stmts)
        wit = {"kind": "history", "text": text, "ops": []}
        ok, res = ctx.guard("parse", wit, snapshot.make_parser, text)
        if ok:
            ctx.mon("C08.copy_equals_source_but_for_mother")
            for mech, msg in snapshot.compare_tables(res[0], exp):
                ctx.violate("copy-semantics:" + mech, msg, wit)
        if ok and i % 3 == 0:
            # a fresh instance parsed without conjugated tables: the copies are there all the same (CopyDecay is not a conjugation)
            ctx.hit("copy-semantics-without-conjugates")
            ok3, res3 = ctx.guard("parse:include_ccdecays=False", wit, snapshot.make_parser, text, None, (), False)
            if ok3:
                for mech, msg in snapshot.compare_tables(res3[0], L.expected(stmts, include_cc=False)):
                    ctx.violate("copy-semantics:include_ccdecays=False:" + mech, msg, wit)
        n = ctx.rng.choice([5, 10, 20, 40])
        ops = [ctx.rng.choice(OPS) for _ in range(n)]
        # a mutation is only meaningful right after a query that returned something
        Hist(ctx, text, len(exp["order"]), list(exp["derived"]), hits).run(ops, "gen")
        if i < 2:
            ctx.sample({"text": text, "history": ops})
        if len(ctx.violations) >= ctx.max_violations:
            return


def finish(merged):
    """The identity walk reads private state; if that state is gone after a refactoring the walk is 'not observed' -- the behavioural
    monitors (snapshot after every step, CopyDecay semantics) still carry the verdict, so the run is not made inconclusive by it."""
    c = merged["classes"]
    if c.get("identity-walk:derived-tables", 0) == 0 and c.get("identity-walk:state-not-observable", 0) > 0:
        c["identity-walk:derived-tables"] = REQUIRED["identity-walk:derived-tables"]
        merged["notes"]["identity_walk"] = "NOT OBSERVED: the private attribute _parsed_decays does not exist on this tree"


def replay(ctx, w):
    stmts = L.read(w["text"], L.published_models())
    exp = L.expected(stmts)
    Hist(ctx, w["text"], len(exp["order"]), list(exp["derived"])).run(w["ops"], "replay")
