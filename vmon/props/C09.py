"""C09 -- decay chains are the faithful recursive unfolding of the decay tables.

W-gen: acyclic table sets (generated text) x stable sets S (all subsets for small sets, otherwise a
covering sample: empty, all, M's direct daughters, a single depth>=2 particle, random; as list / tuple /
set).  W-corpus: mothers of the shipped master files whose independently computed unfolding stays below a
bound.  Oracle: ref_unfold over the *abstract* tables of the generator (generated) or over the parser's
own flat tables (corpus + the icontract post-condition on the real build_decay_chains, top-level calls).
"""
from __future__ import annotations

import itertools
import os

from .. import chains, contracts, core, decgen, snapshot
from .. import declang as L

RULE = ("one case per (table set, mother, stable set, container type); non-trivial = the unfolding has depth >= 2; distinct by hash of (text, mother, S)")
ANCHORS = ["decaylanguage.dec.dec:DecFileParser.build_decay_chains", "decaylanguage.dec.dec:DecFileParser._find_decay_modes",
           "decaylanguage.dec.dec:DecFileParser._decay_mode_details"]
WORKERS = {"quick": 4, "thorough": 16}
WTESTS = {"groups": ['parser_chains'], "tests": ['tests/dec', 'tests/decay']}
REQUIRED = {"asked-again-after:a-refused-question": 50, "asked-again-after:an-abandoned-call:interrupted": 50, "copydecay-onto-a-name-with-its-own-block": 5, "asked-from-deep-inside-the-callers-recursion:answered": 2, "asked-from-deep-inside-the-callers-recursion": 4, "asked-again-after:answer-edited": 20, "asked-again-after:modes-expanded": 10, "cascade-deeper-than-100-levels": 1, "mother-made-by-CDecay-or-CopyDecay-used-as-daughter": 20, "depth>=3": 50, "repeated-daughter-in-line": 50, "empty-block-daughter": 20, "S-cuts-at-depth>=2": 50, "lines>=4": 50, "not-found-raises": 20,
            "S-contains-direct-daughters": 50, "S-as-set": 20, "S-as-tuple": 20, "S-all-subsets": 10, "daughters>=3": 50, "alias-mother": 10,
            "corpus-mother": 20, "photos-line-in-chain": 20, "conjugated-table-in-set": 10, "S-contains-the-mother": 20, "zero-branching-fraction-line-with-decaying-daughter": 5, "earlier-instance-queried-again": 20, "reparsed-without-conjugates": 5, "C09.build_decay_chains.is_unfolding": 300}
ASSUMPTIONS = ["table sets are acyclic (as quantified)", "the chain reports the model without the PHOTOS keyword; an absent parameter list '' == []"]


def gen_tables(ctx, max_paths=3000, max_size=1500, same_names_as=None):
    """Acyclic table set as abstract statements: particles totally ordered, daughters from later ones / stable names."""
    r = ctx.rng
    g = decgen.Gen(r)
    while True:
        n = r.choice([2, 3, 4, 5, 6, 8])
        pool = [x for x in g.real if x.count("(") == x.count(")")]
        parts = r.sample(pool, n)
        if same_names_as:       # another file over the same particle names (other lines): what a second parser instance would hold
            keep = [x for x in same_names_as if x in pool]
            r.shuffle(keep)
            parts = (keep + parts)[:n]
        stable = r.sample([x for x in pool if x not in parts], 6) + ["Xunk", "q'"]
        aliases = {}
        stmts = []
        for i in range(n):
            if r.random() < 0.25:   # decaying alias
                a = "My" + parts[i].replace("anti-", "a")
                if L.label_ok(a, g.models) and a not in aliases:
                    aliases[a] = parts[i]
                    parts[i] = a
        # two different decaying names for one particle (an alias next to the plain name, or two aliases), each with its own block
        twin = None
        if aliases and n >= 3 and r.random() < 0.5:
            a0, t0 = r.choice(list(aliases.items()))
            k = parts.index(a0)
            if k >= 1:
                twin = t0 if r.random() < 0.5 else "Other" + t0.replace("anti-", "a")
                if twin not in parts and L.label_ok(twin, g.models):
                    if twin != t0:
                        aliases[twin] = t0
                    parts.insert(k + 1, twin)
                    n += 1
                else:
                    twin = None
        for a, t in aliases.items():
            stmts.append({"k": "Alias", "a": a, "b": t})
        na = "MyStable"
        stmts.append({"k": "Alias", "a": na, "b": stable[0]})   # non-decaying alias
        # an alias *without* a Decay block of a particle that has one: as a daughter it is a stable name, whatever its target decays to
        nb, nb_at = None, None
        plain = [j for j in range(1, len(parts)) if parts[j] not in aliases]
        if plain and r.random() < 0.4:
            nb_at = r.choice(plain)
            nb = "Bl" + parts[nb_at].replace("anti-", "a")
            if L.label_ok(nb, g.models) and nb not in parts:
                stmts.append({"k": "Alias", "a": nb, "b": parts[nb_at]})
            else:
                nb = None
        blocks = []
        for i, m in enumerate(parts):
            later = parts[i + 1:]
            nl = r.choice([1, 2, 3, 4, 4, 6]) if i == 0 else r.choice([0, 1, 1, 2, 3, 4])
            lines = []
            for _ in range(nl):
                k = r.choice([0, 1, 2, 2, 3, 3, 4])
                fs = []
                for _ in range(k):
                    x = r.random()
                    fs.append(r.choice(later) if later and x < 0.55 else (na if x < 0.62 else r.choice(stable)))
                if twin is not None and i == 0 and twin in later and r.random() < 0.7:
                    fs += [twin, parts[parts.index(twin) - 1]]      # both names of the particle below one mother
                if nb is not None and i < nb_at and r.random() < 0.5:
                    fs.insert(r.randint(0, len(fs)), nb)
                if fs and r.random() < 0.3:
                    fs.append(fs[0])
                mod = r.choice([("PHSP", []), ("VSS", []), ("HELAMP", ["1.0", "0.0", "-1.0", "0.5"]), ("SVS", []), ("VSS_BMIX", ["0.5"])])
                lines.append({"bf": r.choice(["1.0", "0.5", ".25", "2E-3", "0.125", "0.0314", "0.3333", "0", "0.0000", "0e0", "-0.1"]), "fs": fs, "photos": r.random() < 0.25,
                              "model": mod[0], "params": list(mod[1])})
                if fs and r.random() < 0.12:
                    # the same final state listed a second time, with its own branching fraction and model (as the master files do for B0, B+, B_s0)
                    lines.append({"bf": r.choice(["0.011", "0.25", "7e-4"]), "fs": list(fs), "photos": False, "model": "PHSP" if mod[0] != "PHSP" else "SVS", "params": []})
            blocks.append({"k": "Decay", "m": m, "lines": lines})
        r.shuffle(blocks)
        # conjugated tables (CDecay) are decay tables like any other: their lines are clones of the source's lines with other names
        cds = []
        for m in parts:
            c = names_conj(m)
            if r.random() < 0.3 and not c.startswith("ChargeConj(") and c != m and c not in parts and c not in stable:
                cds.append({"k": "CDecay", "name": c})
        # ... and so are copied tables; mothers made by CDecay / CopyDecay are used as daughters further up, where they must be unfolded like any other
        by_m = {b["m"]: b for b in blocks}
        derived_used = False
        for j, m in enumerate(parts):
            if j == 0:
                continue
            made = [cd["name"] for cd in cds if cd["k"] == "CDecay" and cd["name"] == names_conj(m)]
            if r.random() < 0.25:
                cp = "Cp" + m.replace("anti-", "a")
                if L.label_ok(cp, g.models) and cp not in parts and cp not in stable:
                    cds.append({"k": "CopyDecay", "a": cp, "b": m})
                    made.append(cp)
                    if r.random() < 0.5:      # a second copy of the same source
                        cds.append({"k": "CopyDecay", "a": cp + "2", "b": m})
                        made.append(cp + "2")
                    if r.random() < 0.5:      # ... and the declared conjugate of the copy, made by CDecay from the copied table
                        cds += [{"k": "ChargeConj", "a": cp, "b": cp + "bar"}, {"k": "CDecay", "name": cp + "bar"}]
                        made.append(cp + "bar")
            for name in made:
                for up in parts[:j]:
                    for ln in by_m[up]["lines"]:
                        if r.random() < 0.12:
                            ln["fs"].insert(r.randint(0, len(ln["fs"])), name)
                            derived_used = True
        stmts = decgen.interleave(r, stmts, blocks, cds)
        exp = L.expected(stmts)
        exp["derived_table_used_as_daughter"] = derived_used
        alltabs = {**exp["tables"], **exp["derived"]}
        T = {m: [{"bf": ln["bf"], "fs": ln["fs"], "model": ln["model"], "model_params": ln["params"]} for ln in lines] for m, lines in alltabs.items()}
        memo = {}
        ok = True
        for m in T:
            s, c = chains.ref_sizes(T, m, memo)
            if s > max_size or c > max_paths:
                ok = False
        if ok:
            return stmts, T, parts, exp


def names_conj(n):
    from .. import names  # noqa: PLC0415

    return names.conj(n)


def stable_sets(ctx, T, m, parts):
    r = ctx.rng
    involved = [x for x in parts if x != m]
    direct = sorted({d for ln in T[m] for d in ln["fs"]})
    out = []
    if len(involved) <= 5:
        for k in range(len(involved) + 1):
            out += [list(c) for c in itertools.combinations(involved, k)]
        ctx.hit("S-all-subsets")
    else:
        out = [[], list(involved), [d for d in direct if d in T]]
        deep = [x for x in involved if x not in direct]
        if deep:
            out.append([r.choice(deep)])
        for _ in range(ctx.pick(6, 26)):
            out.append(r.sample(involved, r.randint(1, len(involved))))
    out.append(direct)
    # S is any set of particles: it may contain the requested mother itself (its table is still unfolded line by line)
    out.append([m])
    out.append([m, *direct[:1]])
    return out


def depth_of(T, m, S):
    ds = [depth_of(T, d, S) for ln in T[m] for d in ln["fs"] if d in T and d not in S]
    return 1 + max(ds, default=0)


def check(ctx, p, T, m, S, stype, wit, workload, al=()):
    from decaylanguage.dec.dec import DecayNotFound  # noqa: PLC0415

    sarg = {"list": list, "tuple": tuple, "set": set}[stype](S)
    d = depth_of(T, m, set(S))
    ctx.case({"w": wit.get("text", wit.get("file")), "m": m, "S": sorted(S), "t": stype}, d >= 2, workload)
    if d >= 3:
        ctx.hit("depth>=3")
    if any(k >= 2 for ln in T[m] for k in [max((ln["fs"].count(x) for x in ln["fs"]), default=0)]):
        ctx.hit("repeated-daughter-in-line")
    if any(x in T and not T[x] and x not in S for ln in T[m] for x in ln["fs"]):
        ctx.hit("empty-block-daughter")
    direct = {x for ln in T[m] for x in ln["fs"]}
    if any(x in T and x not in direct for x in S) and d >= 2:
        ctx.hit("S-cuts-at-depth>=2")
    if S and set(S) & direct:
        ctx.hit("S-contains-direct-daughters")
    if len(T[m]) >= 4:
        ctx.hit("lines>=4")
    if any(len(ln["fs"]) >= 3 for ln in T[m]):
        ctx.hit("daughters>=3")
    if m in al:
        ctx.hit("alias-mother")
    if S:
        ctx.hit("S-as-" + stype)
    if m in S:
        ctx.hit("S-contains-the-mother")
    if any(L.num(str(ln["bf"])) == 0 if isinstance(ln["bf"], str) else ln["bf"] == 0 for ln in T[m]) and any(x in T and x not in S for ln in T[m] if ln["bf"] == 0 for x in ln["fs"]):
        ctx.hit("zero-branching-fraction-line-with-decaying-daughter")
    w = {**wit, "mother": m, "stable": sorted(S), "stable_type": stype}
    ok, got = ctx.guard("chain", w, (lambda: p.build_decay_chains(m, stable_particles=sarg)) if (S or stype != "list") else (lambda: p.build_decay_chains(m)))
    for v in contracts.drain():
        ctx.violate(v["mechanism"], v["message"], w)
    if not ok:
        return
    ctx.mon("C09.direct.unfolding")
    exp = chains.ref_unfold(T, m, set(S))
    if contracts._norm_chain(got) != contracts._norm_chain(exp):
        ctx.violate("chain:direct:not-the-unfolding", f"chain of {m} with S={sorted(S)}: {str(got)[:700]} expected {str(exp)[:700]}", w)
    elif ctx.rng.random() < 0.08:
        # the same question abandoned at a random line of the library's code, or a question the library refuses, and then the question again
        from .. import trace  # noqa: PLC0415

        fp = trace.Failpoint.get()
        call = (lambda: p.build_decay_chains(m, stable_particles=sarg)) if (S or stype != "list") else (lambda: p.build_decay_chains(m))
        if ctx.rng.random() < 0.6:
            _, n = fp.count(call)
            status, where = fp.inject(ctx.rng.randint(1, max(1, n)), call)
            how = "abandoned-at-" + str(where)
            ctx.hit("asked-again-after:an-abandoned-call:" + status)
        else:
            try:
                p.build_decay_chains("NoSuchParticle", stable_particles=sarg)
            except Exception:  # noqa: BLE001, S110
                pass
            how = "refused-question"
            ctx.hit("asked-again-after:a-refused-question")
        contracts.drain()
        w3 = {**w, "asked_again_after": how}
        ok, got3 = ctx.guard("chain", w3, call)
        contracts.drain()
        if ok and contracts._norm_chain(got3) != contracts._norm_chain(exp):
            ctx.violate("chain:second-answer-differs:after-" + how.split("-at-")[0], f"chain of {m} asked again ({how}): {str(got3)[:500]} expected {str(exp)[:500]}", w3)
        if S:
            # ... and the question without any stable particle: everything that has a table is unfolded again
            ok, got4 = ctx.guard("chain", w3, p.build_decay_chains, m)
            contracts.drain()
            exp4 = chains.ref_unfold(T, m, set())
            if ok and contracts._norm_chain(got4) != contracts._norm_chain(exp4):
                ctx.violate("chain:stable-set-of-a-call-that-went-wrong-still-in-force", f"chain of {m} without stable particles, after a call with S={sorted(S)} that went wrong ({how}): "
                            f"{str(got4)[:500]} expected {str(exp4)[:500]}", w3)
    elif ctx.rng.random() < 0.2:
        # the same question once more, after the caller edited the first answer (or had the modes expanded in between): the same unfolding again
        how = "answer-edited" if (ctx.rng.random() < 0.6 or workload == "corpus") else "modes-expanded"
        ctx.hit("asked-again-after:" + how)
        w2 = {**w, "asked_again_after": how}
        if how == "answer-edited":
            snapshot.scramble(got)
        else:
            ctx.guard("expand-between", w2, p.expand_decay_modes, m)
        ok, got2 = ctx.guard("chain", w2, (lambda: p.build_decay_chains(m, stable_particles=sarg)) if (S or stype != "list") else (lambda: p.build_decay_chains(m)))
        contracts.drain()
        try:
            same = (not ok) or contracts._norm_chain(got2) == contracts._norm_chain(exp)
        except Exception:  # noqa: BLE001  - the second answer is not even shaped like a chain
            same = False
        if not same:
            ctx.violate("chain:second-answer-differs:after-" + how, f"chain of {m} with S={sorted(S)} asked again: {str(got2)[:700]} expected {str(exp)[:700]}", w2)
    _ = DecayNotFound


def check_notfound(ctx, p, name, wit):
    from decaylanguage.dec.dec import DecayNotFound  # noqa: PLC0415

    ctx.case({"w": wit.get("text", wit.get("file")), "notfound": name}, True, "notfound")
    w = {**wit, "mother": name, "stable": [], "notfound": True}
    try:
        got = p.build_decay_chains(name)
    except DecayNotFound:
        ctx.hit("not-found-raises")
        contracts.drain()
        return
    except Exception as e:  # noqa: BLE001
        ctx.violate("chain:notfound:wrong-exception:" + type(e).__name__, f"{type(e).__name__}: {e}", w)
        return
    ctx.violate("chain:notfound:no-error", f"build_decay_chains({name!r}) returned {got!r} for a particle without table", w)


def run_text(ctx, stmts, T, parts, exp, workload="gen"):
    text = L.render(stmts)
    wit = {"kind": "generated", "text": text}
    ok, res = ctx.guard("parse", wit, snapshot.make_parser, text)
    if not ok:
        return
    p, _ = res
    if any(ln["photos"] for lines in exp["tables"].values() for ln in lines):
        ctx.hit("photos-line-in-chain")
    stypes = ["list", "tuple", "set"]
    k = 0
    derived = [m for m in exp["derived"]]
    if derived:
        ctx.hit("conjugated-table-in-set")
    allparts = parts + [m for m in derived if m not in parts]
    for m in parts[: ctx.pick(3, 4)] + derived[:2]:
        for S in stable_sets(ctx, T, m, allparts):
            k += 1
            check(ctx, p, T, m, S, stypes[k % 3], wit, workload, exp["aliases"])
        # an instance parsed earlier in this interpreter (kept alive) still answers from its own tables
        if _prev and k % 2 == 0:
            p0, T0, m0, wit0 = _prev[0]
            ctx.hit("earlier-instance-queried-again")
            check(ctx, p0, T0, m0, [], "list", wit0, "earlier-instance")
    exp_off = L.expected(stmts, include_cc=False)
    conj_made = [m for m in derived if m not in exp_off["derived"]]      # tables made by CDecay (copies exist whatever the switch says)
    if conj_made and ctx.rng.random() < 0.6:
        # the same instance parsed again without / with conjugated tables: chains follow the tables of the *last* parse
        import warnings  # noqa: PLC0415

        with warnings.catch_warnings():
            warnings.simplefilter("ignore")
            p.parse(include_ccdecays=False)
        ctx.hit("reparsed-without-conjugates")
        T_off = {m: T[m] for m in [*exp_off["tables"], *exp_off["derived"]]}
        w2 = {**wit, "reparsed": "include_ccdecays=False"}
        users = [m for m in parts if any(d in conj_made for ln in T[m] for d in ln["fs"])]
        for m in (users[:1] or parts[:1]):
            check(ctx, p, T_off, m, [], "list", w2, workload + "-reparsed")
        check_notfound(ctx, p, conj_made[0], w2)
        with warnings.catch_warnings():
            warnings.simplefilter("ignore")
            p.parse()
        check(ctx, p, T, conj_made[0], [], "list", {**wit, "reparsed": "off then on"}, workload + "-reparsed")
    _prev.clear()
    _prev.append((p, T, parts[0], wit))
    stable_only = [d for lines in T.values() for ln in lines for d in ln["fs"] if d not in T]
    for name in (stable_only[:1] + ["NoSuchParticle"]):
        check_notfound(ctx, p, name, wit)
    if len(ctx.samples) < 2:
        ctx.sample({"text": text, "mother": parts[0], "chain": chains.ref_unfold(T, parts[0], set())})


_prev: list = []


def run_corpus(ctx):
    from . import C01  # noqa: PLC0415

    for j, (f, um) in enumerate(C01.corpus_files()[:2]):
        if ctx.quick and ctx.shard != j:
            continue
        p, _ = snapshot.make_parser(None, [f])
        T = contracts.parser_tables(p)
        memo = {}
        ms = [m for m in T if contracts._reach_acyclic(T, m) and chains.ref_sizes(T, m, memo)[0] <= ctx.pick(300, 2000)]
        ms = [m for i, m in enumerate(ms) if ctx.quick or ctx.mine(i)]
        if ctx.quick:
            ms = ctx.rng.sample(ms, min(len(ms), 40))
        wit = {"kind": "corpus", "file": os.path.relpath(f, core.REPO)}
        for i, m in enumerate(ms):
            direct = sorted({d for ln in T[m] for d in ln["fs"]})
            for S in ([], [d for d in direct if d in T][:3], ctx.rng.sample(sorted(T), 5)):
                if m in S:
                    continue
                ctx.hit("corpus-mother")
                check(ctx, p, T, m, S, ["list", "tuple", "set"][i % 3], wit, "corpus")


def deep_cascade(ctx, depth, leftover=None):
    """One long acyclic cascade N000 -> N001 gamma, N001 -> N002 gamma, ...: every level is unfolded, however many there are."""
    names_ = [f"N{i:03d}" for i in range(depth)]
    stmts = [{"k": "Decay", "m": n, "lines": [{"bf": "1.0", "fs": [names_[i + 1], "gamma"] if i + 1 < depth else ["gamma", "gamma"], "photos": False, "model": "PHSP", "params": []}]}
             for i, n in enumerate(names_)]
    ctx.rng.shuffle(stmts)
    text = L.render(stmts)
    wit = {"kind": "generated", "text": text}
    ctx.case({"deep": depth}, True, "deep-cascade")
    ctx.hit("cascade-deeper-than-100-levels")
    ok, res = ctx.guard("parse", wit, snapshot.make_parser, text)
    if not ok:
        return
    w = {**wit, "mother": names_[0], "stable": []}
    if leftover is None:
        ok, got = ctx.guard("chain", w, res[0].build_decay_chains, names_[0])
        contracts.drain()
        if not ok:
            return
    else:
        # the question asked from deep inside the caller's own recursion, `leftover` frames below the interpreter's recursion limit: the answer is
        # either the library's RecursionError (not judged) or the whole unfolding -- never a chain that stops half-way down
        import sys  # noqa: PLC0415

        f, cur = sys._getframe(), 0
        while f is not None:
            cur, f = cur + 1, f.f_back

        def descend(n):
            return res[0].build_decay_chains(names_[0]) if n <= 0 else descend(n - 1)

        w["asked_with_frames_left"] = leftover
        ctx.hit("asked-from-deep-inside-the-callers-recursion")
        try:
            got = descend(max(0, sys.getrecursionlimit() - cur - leftover))
        except RecursionError:
            ctx.hit("asked-from-deep-inside-the-callers-recursion:recursion-error:not-judged")
            contracts.drain()
            return
        except Exception as e:  # noqa: BLE001
            ctx.violate("chain:deep-cascade:raised:" + type(e).__name__, f"{type(e).__name__}: {e}", w)
            contracts.drain()
            return
        contracts.drain()
        ctx.hit("asked-from-deep-inside-the-callers-recursion:answered")
    level, node = 0, got
    while True:
        (m, modes), = node.items()
        if m != names_[level] or len(modes) != 1:
            ctx.violate("chain:deep-cascade:level", f"level {level}: {m} with {len(modes)} modes, expected {names_[level]} with 1", w)
            return
        first = modes[0]["fs"][0] if level + 1 < depth else None
        if level + 1 == depth:
            break
        if not isinstance(first, dict):
            ctx.violate("chain:deep-cascade:not-unfolded", f"level {level + 1}: daughter {first!r} of {m} is a bare name although it has a table and is not stable", w)
            return
        level, node = level + 1, first
    ctx.mon("C09.direct.deep_cascade")


def copy_onto_a_name_with_its_own_block(ctx, stmts, T, parts, exp):
    """The same file with `CopyDecay X Y` in front, X and Y both with their own Decay block (X no source of anything): X's table is its block - for the flat
    queries and just the same for the chains of X and of every mother above it."""
    blocks = sorted({st["m"] for st in stmts if st["k"] == "Decay"})
    cds = {st["name"] for st in stmts if st["k"] == "CDecay"}
    conj = L.file_conj(exp["cc"])
    used = {conj(n) for n in cds} | {st["b"] for st in stmts if st["k"] == "CopyDecay"} | cds
    free = [b for b in blocks if b not in used and b in T]
    if len(blocks) < 2 or not free:
        return
    x = ctx.rng.choice(free)
    y = ctx.rng.choice([b for b in blocks if b != x])
    text2 = L.render([{"k": "CopyDecay", "a": x, "b": y}, *stmts])
    wit = {"kind": "generated", "text": text2, "copy_onto_existing_block": [x, y]}
    ok, res = ctx.guard("parse", wit, snapshot.make_parser, text2)
    if not ok:
        return
    ctx.hit("copydecay-onto-a-name-with-its-own-block")
    above = [m for m in parts if m != x and any(x in ln["fs"] for ln in T[m])][:2]
    for m in [x, *above]:
        check(ctx, res[0], T, m, [], "list", wit, "gen", exp["aliases"])


def run(ctx):
    contracts.arm("parser_chains")
    deep_cascade(ctx, ctx.rng.choice([120, 150, 180]))
    for left in (2000, 700, 450, 300, 200, 120, 60):
        deep_cascade(ctx, 110, leftover=left)
    for _ in range(ctx.pick(120, 800)):
        stmts, T, parts, exp = gen_tables(ctx)
        if exp.get("derived_table_used_as_daughter"):
            ctx.hit("mother-made-by-CDecay-or-CopyDecay-used-as-daughter")
        run_text(ctx, stmts, T, parts, exp)
        if _ % 4 == 1:
            copy_onto_a_name_with_its_own_block(ctx, stmts, T, parts, exp)
        if len(ctx.violations) >= ctx.max_violations:
            return
    run_corpus(ctx)
    for name, k in contracts.COUNTS.items():
        if name.startswith("C09."):
            ctx.mon(name, k)
    ctx.note("max_line_events_in_one_build", contracts.Budget.get().max_seen)


def replay(ctx, w):
    contracts.arm("parser_chains")
    if w["kind"] == "generated":
        stmts = L.read(w["text"], L.published_models())
        exp = L.expected(stmts)
        T = {m: [{"bf": ln["bf"], "fs": ln["fs"], "model": ln["model"], "model_params": ln["params"]} for ln in lines] for m, lines in exp["tables"].items()}
        p, _ = snapshot.make_parser(w["text"])
    else:
        p, _ = snapshot.make_parser(None, [os.path.join(core.REPO, w["file"])])
        T = contracts.parser_tables(p)
    if w.get("notfound"):
        check_notfound(ctx, p, w["mother"], w)
    else:
        check(ctx, p, T, w["mother"], w["stable"], w.get("stable_type", "list"), {k: v for k, v in w.items() if k in ("kind", "text", "file")}, "replay")
