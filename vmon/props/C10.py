"""C10 -- expanding decay modes enumerates every complete decay path exactly once.

Oracle: (1) the count by the sum-of-products formula (independent DP), (2) the *multiset* of canonical
trees of all ways of choosing one line per decaying particle, compared with the multiset obtained by
reading every returned descriptor back with the bracket reader; decaying aliases must appear under the
aliased name at every depth, non-decaying names verbatim.  Armed as icontract post-condition on the real
expand_decay_modes (reference = the parser's own flat tables) and compared directly with the
generator's abstract tables.  W-corpus: master-file mothers whose independently computed count is below a bound.
"""
from __future__ import annotations

import os
from collections import Counter

from .. import chains, contracts, core, snapshot
from .. import declang as L
from . import C09

RULE = ("one case per (table set, mother); non-trivial = more than one decay path; distinct by hash of (text, mother)")
ANCHORS = ["decaylanguage.dec.dec:DecFileParser.expand_decay_modes", "decaylanguage.decay.decay:_expand_decay_modes",
           "decaylanguage.utils.utilities:DescriptorFormat.format_descriptor"]
WORKERS = {"quick": 4, "thorough": 16}
WTESTS = {"groups": ['parser_chains'], "tests": ['tests/dec', 'tests/decay']}
REQUIRED = {"expand-after-a-chain-query-with-a-stable-set-that-went-wrong:abandoned": 10, "expand-after-a-chain-query-with-a-stable-set-that-went-wrong:refused": 10, "expand-after-a-chain-query-with-a-stable-set-that-went-wrong:iterable-raises": 10, "file-constructor:2-part-files": 3, "former-alias-name-now-a-particle-with-a-table": 5, "expand-after-a-refused-descriptor-format": 10, "product>=2x2-in-one-line": 30, "line-with>=3-multi-mode-daughters": 10, "line-without-daughters": 20, "decaying-alias-at-depth>=2": 10,
            "decaying-alias-top": 10, "non-decaying-alias": 20, "blockless-alias-of-a-decaying-particle-as-daughter": 20, "empty-block-daughter": 20, "same-decaying-daughter-twice": 20, "paths>=50": 20,
            "corpus-mother": 20, "expand-after-chains-with-stable-set": 20, "expand-after-editing-returned-values": 20, "two-instances-queried-alternately": 20, "two-decaying-names-of-one-particle": 5, "C10.expand.count_and_paths": 100}
ASSUMPTIONS = ["names have balanced parentheses and no blanks; table sets are acyclic", "default descriptor format while expanding"]


def classify(ctx, T, m, al, memo):
    def multi(x):
        return x in T and chains.ref_sizes(T, x, memo)[1] >= 2

    for ln in T[m]:
        k = sum(1 for x in ln["fs"] if multi(x))
        if k >= 2:
            ctx.hit("product>=2x2-in-one-line")
        if k >= 3:
            ctx.hit("line-with>=3-multi-mode-daughters")
        if not ln["fs"]:
            ctx.hit("line-without-daughters")
        if any(x in T and not T[x] for x in ln["fs"]):
            ctx.hit("empty-block-daughter")
        c = Counter(x for x in ln["fs"] if x in T and T[x])
        if any(v >= 2 for v in c.values()):
            ctx.hit("same-decaying-daughter-twice")
    if m in al:
        ctx.hit("decaying-alias-top")
    reach, st = set(), [m]
    while st:
        x = st.pop()
        if x in reach:
            continue
        reach.add(x)
        st += [y for ln in T[x] for y in ln["fs"] if y in T]
    shown = {}
    for x in reach:
        if T[x]:
            shown.setdefault(al.get(x, x), set()).add(x)
    if any(len(v) >= 2 for v in shown.values()):
        ctx.hit("two-decaying-names-of-one-particle")

    def deep_alias(x, d, seen):
        if x in seen:
            return False
        seen.add(x)
        for ln in T[x]:
            for y in ln["fs"]:
                if y in T and T[y]:
                    if y in al and d + 1 >= 2:
                        return True
                    if deep_alias(y, d + 1, seen):
                        return True
        return False

    if deep_alias(m, 0, set()):
        ctx.hit("decaying-alias-at-depth>=2")
    if any(y in al and not (y in T and T[y]) for ln in T[m] for y in ln["fs"]):
        ctx.hit("non-decaying-alias")
    if any(y in al and y not in T and al[y] in T and T[al[y]] for x in reach for ln in T[x] for y in ln["fs"]):
        ctx.hit("blockless-alias-of-a-decaying-particle-as-daughter")


class _RaisingNames(list):
    """The caller's own collection of stable names, whose membership test / iteration fails after a few uses (a lazily loaded list, a broken proxy)."""

    def __init__(self, names_, uses):
        super().__init__(names_)
        self.left = uses

    def _use(self):
        self.left -= 1
        if self.left < 0:
            raise OSError("harness: the collection of stable names failed while it was read")

    def __contains__(self, x):
        self._use()
        return super().__contains__(x)

    def __iter__(self):
        self._use()
        return super().__iter__()


def check(ctx, p, T, m, al, wit, workload):
    memo = {}
    _, count = chains.ref_sizes(T, m, memo)
    ctx.case({"w": wit.get("text", wit.get("file")), "m": m}, count >= 2, workload)
    classify(ctx, T, m, al, memo)
    if count >= 50:
        ctx.hit("paths>=50")
    w = {**wit, "mother": m}
    # a quota of expansions follows other queries on the same instance (chains with a stable set cutting below the first level)
    if ctx.rng.random() < 0.35:
        deep = sorted({x for ln in T[m] for y in ln["fs"] if y in T for l2 in T[y] for x in l2["fs"] if x in T})
        if deep:
            S = ctx.rng.sample(deep, min(len(deep), ctx.rng.choice([1, 2])))
            w["before"] = ["build_decay_chains", m, S]
            ctx.hit("expand-after-chains-with-stable-set")
            ctx.guard("chain-before-expand", w, p.build_decay_chains, m, S)
            contracts.drain()
    if ctx.rng.random() < 0.2:
        # earlier on the same object a chain query with a stable set went wrong: refused (unknown mother), abandoned at a random line of the library's
        # code, or stopped by the caller's own iterable of stable names raising while it was read
        below = sorted({x for ln in T[m] for y in ln["fs"] if y in T for x in [y, *[z for l2 in T[y] for z in l2["fs"] if z in T]]})
        if below:
            S = ctx.rng.sample(below, min(len(below), ctx.rng.choice([1, 2, 3])))
            how = ctx.rng.choice(["refused", "abandoned", "iterable-raises"])
            ctx.hit("expand-after-a-chain-query-with-a-stable-set-that-went-wrong:" + how)
            w["earlier_call_went_wrong"] = [how, S]
            try:
                if how == "refused":
                    p.build_decay_chains("NoSuchParticle", stable_particles=S)
                elif how == "abandoned":
                    from .. import trace  # noqa: PLC0415

                    fp = trace.Failpoint.get()
                    _, n = fp.count(p.build_decay_chains, m, S)
                    fp.inject(ctx.rng.randint(1, max(1, n)), p.build_decay_chains, m, S)
                else:
                    p.build_decay_chains(m, stable_particles=_RaisingNames(S, ctx.rng.randint(1, 6)))
            except Exception:  # noqa: BLE001, S110   what the earlier call raised is not judged
                pass
            contracts.drain()
    if ctx.rng.random() < 0.3:
        # the caller has edited what earlier queries returned (alias dictionary, mode lists, chains): the expansion is still the file's
        ctx.hit("expand-after-editing-returned-values")
        w["before_edit"] = True
        snapshot.edit_returned_values(p, [m])
        contracts.drain()
    if ctx.rng.random() < 0.1:
        # earlier in the process somebody rendered something inside a format block (successfully) and left it: expansions afterwards are in the default format
        from decaylanguage.utils.utilities import DescriptorFormat as _DF  # noqa: PLC0415

        ctx.hit("expand-after-a-format-block-that-was-left")
        w["format_block_before"] = True
        with _DF("{mother} => {daughters}", "[{mother} => {daughters}]"):
            if ctx.rng.random() < 0.5:
                _DF.set_config("{mother} --> {daughters}", "<{mother} --> {daughters}>")
    if ctx.rng.random() < 0.15:
        # earlier in the process somebody asked for a descriptor format the library refuses: the refusal changes nothing for later expansions
        from decaylanguage.utils.utilities import DescriptorFormat  # noqa: PLC0415

        bad = ctx.rng.choice([("{mother} ==> X", "({mother} ==> {daughters})"), ("{mother} -> {daughters}", "{mother}"), ("{mother} -> {daughters} {extra}", "({mother} -> {daughters})"), ("M", "D")])
        w["refused_format_before"] = list(bad)
        try:
            if ctx.rng.random() < 0.5:
                with DescriptorFormat(*bad):
                    pass
            else:
                DescriptorFormat.set_config(*bad)
        except (ValueError, KeyError, IndexError):
            ctx.hit("expand-after-a-refused-descriptor-format")
        else:
            DescriptorFormat.set_config("{mother} -> {daughters}", "({mother} -> {daughters})")
    ok, got = ctx.guard("expand", w, p.expand_decay_modes, m)
    for v in contracts.drain():
        ctx.violate(v["mechanism"], v["message"], w)
    if not ok:
        return
    ctx.mon("C10.direct.count")
    if len(got) != count:
        ctx.violate("expand:direct:count", f"{len(got)} descriptors for {m}, expected {count}", w)
        return
    ctx.mon("C10.direct.paths")
    exp = Counter(chains.ref_paths(T, m, al))
    try:
        g = Counter(chains.read_descriptor(s) for s in got)
    except ValueError as e:
        ctx.violate("expand:direct:unreadable-descriptor", str(e), w)
        return
    if g != exp:
        ctx.violate("expand:direct:paths-differ", f"missing {list((exp - g).items())[:2]!r} unexpected {list((g - exp).items())[:2]!r}", w)
    if len(ctx.samples) < 3 and 2 <= count <= 12:
        ctx.sample({"mother": m, "descriptors": got, "text": wit.get("text", "")[:1200]})


def run(ctx):
    contracts.arm("parser_chains")
    prev = None
    for it in range(ctx.pick(120, 1200)):
        stmts, T, parts, exp = C09.gen_tables(ctx, same_names_as=(prev[2] if prev and it % 2 else None))
        text = L.render(stmts)
        wit = {"kind": "generated", "text": text}
        if it % 4 == 1:
            # the same statements given to the file constructor as several files (str or Path), every part but the last without a final line end
            ok, res = ctx.guard("parse-part-files", wit, snapshot.parse_as_part_files, ctx, text)
            if ok:
                wit = {**wit, **res[2]}
        else:
            ok, res = ctx.guard("parse", wit, snapshot.make_parser, text)
        if not ok:
            continue
        for j, m in enumerate(parts[: ctx.pick(4, 6)] + list(exp["derived"])[:1]):
            check(ctx, res[0], T, m, exp["aliases"], wit, "gen")
            if prev and j < 2:
                # two parser instances alive in one interpreter, queried alternately (the second often over the same particle names)
                ctx.hit("two-instances-queried-alternately")
                p0, T0, parts0, al0, wit0 = prev
                check(ctx, p0, T0, parts0[j % len(parts0)], al0, {**wit0, "after_other_instance": text}, "earlier-instance")
        prev = (res[0], T, parts, exp["aliases"], wit)
        if exp["aliases"] and it % 3 == 0:
            # the next file of the process: the same text without its Alias statements, so what were alias names are now particles of their own
            st2 = [x for x in stmts if x["k"] != "Alias"]
            try:
                exp2 = L.expected(st2)
            except Exception:  # noqa: BLE001  - the model language refuses the reduced file (e.g. a conjugation needing the alias): not a case
                exp2 = None
            if exp2 is not None:
                text2 = L.render(st2)
                T2 = {m: [{"bf": ln["bf"], "fs": ln["fs"], "model": ln["model"], "model_params": ln["params"]} for ln in lines] for m, lines in {**exp2["tables"], **exp2["derived"]}.items()}
                wit2 = {"kind": "generated", "text": text2, "after_other_instance": text}
                ok2, res2 = ctx.guard("parse", wit2, snapshot.make_parser, text2)
                former = [a for a in exp["aliases"] if a in T2 and contracts._reach_acyclic(T2, a)]
                if ok2 and former:
                    ctx.hit("former-alias-name-now-a-particle-with-a-table")
                    for m in former[:3] + [x for x in parts[:2] if x in T2]:
                        check(ctx, res2[0], T2, m, exp2["aliases"], wit2, "gen")
        if len(ctx.violations) >= ctx.max_violations:
            return
    from . import C01  # noqa: PLC0415

    for j, (f, um) in enumerate(C01.corpus_files()[:2]):
        if ctx.quick and ctx.shard != j:
            continue
        p, _ = snapshot.make_parser(None, [f])
        T = contracts.parser_tables(p)
        al = p.dict_aliases()
        memo = {}
        ms = [m for m in T if contracts._reach_acyclic(T, m) and chains.ref_sizes(T, m, memo)[1] <= ctx.pick(300, 5000) and chains.ref_sizes(T, m, memo)[0] <= 20000]
        ms = [m for i, m in enumerate(ms) if ctx.quick or ctx.mine(i)]
        if ctx.quick:
            ms = ctx.rng.sample(ms, min(len(ms), 40))
        ctx.note("corpus_mothers:" + os.path.basename(f), len(ms))
        for m in ms:
            ctx.hit("corpus-mother")
            check(ctx, p, T, m, al, {"kind": "corpus", "file": os.path.relpath(f, core.REPO)}, "corpus")
    for name, k in contracts.COUNTS.items():
        if name.startswith("C10."):
            ctx.mon(name, k)
    ctx.note("max_line_events_in_one_budgeted_call", contracts.Budget.get().max_seen)


def replay(ctx, w):
    contracts.arm("parser_chains")
    if w["kind"] == "generated":
        stmts = L.read(w["text"], L.published_models())
        exp = L.expected(stmts)
        T = {m: [{"bf": ln["bf"], "fs": ln["fs"], "model": ln["model"], "model_params": ln["params"]} for ln in lines] for m, lines in {**exp["tables"], **exp["derived"]}.items()}
        p, _ = snapshot.make_parser(w["text"])
        al = exp["aliases"]
    else:
        p, _ = snapshot.make_parser(None, [os.path.join(core.REPO, w["file"])])
        T = contracts.parser_tables(p)
        al = p.dict_aliases()
    check(ctx, p, T, w["mother"], al, {k: v for k, v in w.items() if k in ("kind", "text", "file")}, "replay")
