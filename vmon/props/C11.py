"""C11 -- class, dictionary and parser forms of a decay convert into each other losslessly.

Monitors: icontract post-conditions on the real DecayChain.to_dict / DecayMode.to_dict (from_dict of the
result must give back the object: mother, every sub-decay, bfs, daughter multisets, metadata), direct
comparison with the generator's abstract chain, parser dict -> class -> dict (equal up to daughter
order), and four constructions of a final state (string / list / mapping / PDG IDs) that must coincide.
"""
from __future__ import annotations

import itertools
import warnings
from collections import Counter

from .. import chains, contracts, names

RULE = ("one case per (type-level chain with JSON-like metadata, order of the decays mapping) / per decay mode / per generated one-line-per-particle "
        "file / per final state built four ways; non-trivial = chain has >= 1 sub-decay, mode/final state has >= 2 particles; distinct by canonical hash")
ANCHORS = ["decaylanguage.decay.decay:DecayChain.to_dict", "decaylanguage.decay.decay:DecayChain.from_dict", "decaylanguage.decay.decay:_build_decay_modes",
           "decaylanguage.decay.decay:DecayMode.to_dict", "decaylanguage.decay.decay:DecayMode.from_dict", "decaylanguage.decay.decay:DecayMode.from_pdgids",
           "decaylanguage.decay.decay:DaughtersDict.__init__", "decaylanguage.decay.decay:DaughtersDict.to_list"]
WORKERS = {"quick": 4, "thorough": 16}
WTESTS = {"groups": ['chain_to_dict', 'mode_to_dict'], "tests": ['tests/decay', 'tests/utils']}
REQUIRED = {"dictionary-handed-over-again-after-a-conversion-that-went-wrong:abandoned": 5, "dictionary-handed-over-again-after-a-conversion-that-went-wrong:no-fs-entry": 5, "branching-fractions-with-17-digits-or-tiny": 20, "sub-decay-without-daughters": 10, "same-decaying-twice-in-one-fs": 20, "same-decaying-two-depths": 20, "metadata-nested>=2": 20, "multiplicity-4": 20,
            "parser-chain": 20, "queried-before-to_dict": 50, "parser-chain-repeated-daughter": 5, "pdgid-all-ids": 1, "four-constructions": 100, "zero-or-negative-count-in-mapping": 10, "mode-edited-in-place-then-converted-again": 20, "mode-built-from-a-final-state-object-the-caller-edits-afterwards": 20,
            "C11.chain.to_dict.roundtrip": 300, "C11.mode.to_dict.roundtrip": 300}
EXHAUSTIVE_NOTE = "all PDG IDs of the EvtGen table go through DecayMode.from_pdgids (sharded over workers); tree shapes <= 5 (quick) / 6 (thorough) enumerated"
ASSUMPTIONS = ["structural equality is judged on public attributes (mother, decays, bf, daughters, metadata); model_params None == ''"]


def gen_json(rng, depth=0):
    r = rng.random()
    if depth >= 3 or r < 0.45:
        return rng.choice([1, 0, -3, 2.5, "s", "a b", "", True, False, None, 1e-9])
    if r < 0.75:
        return [gen_json(rng, depth + 1) for _ in range(rng.randint(0, 3))]
    return {rng.choice(["a", "b", "k1", "x y", "model"]): gen_json(rng, depth + 1) for _ in range(rng.randint(0, 3))}


def json_depth(v):
    if isinstance(v, dict):
        return 1 + max((json_depth(x) for x in v.values()), default=0)
    if isinstance(v, list):
        return 1 + max((json_depth(x) for x in v), default=0)
    return 0


def gen_meta(rng):
    m = {}
    if rng.random() < 0.8:
        m["model"] = rng.choice(["PHSP", "VSS", "HELAMP", "PHOTOS SVS", ""])
    if rng.random() < 0.7:
        m["model_params"] = rng.choice(["", [1.0, 0.5], ["x", -2.0], None, [0.0], "1.0 0.5", "dm", [], 0, 2.5, ["only"], {"a": 1}])
    for _ in range(rng.choice([0, 0, 1, 2, 3])):
        m[rng.choice(["note", "src", "tag", "w", "study", "q"])] = gen_json(rng)
    return m


def build(case):
    from decaylanguage import DecayChain, DecayMode  # noqa: PLC0415

    types = case["chain"]["types"]
    decays = {k: DecayMode(types[k][0], list(types[k][1]), **case["meta"].get(k, {})) for k in (case.get("order") or list(types))}
    return DecayChain(case["chain"]["mother"], decays)


def norm_meta(m):
    m = {"model": "", "model_params": "", **m}
    if m["model_params"] is None:
        m["model_params"] = ""
    return m


def check_chain(ctx, case, workload):
    from decaylanguage import DecayChain  # noqa: PLC0415

    types, m = case["chain"]["types"], case["chain"]["mother"]
    wit = {"kind": "chain", **case}
    ctx.case(case, nontrivial=len(types) > 1, workload=workload)
    occ = chains.occurrences(types, m)
    if any(k >= 2 and d in types for t in types.values() for d, k in Counter(t[1]).items()):
        ctx.hit("same-decaying-twice-in-one-fs")
    if any(len(v) >= 2 for v in chains.depths(types, m).values()):
        ctx.hit("same-decaying-two-depths")
    if any(json_depth(v) >= 2 for mm in case["meta"].values() for v in mm.values()):
        ctx.hit("metadata-nested>=2")
    if any(k >= 4 for t in types.values() for k in Counter(t[1]).values()):
        ctx.hit("multiplicity-4")
    ok, dc = ctx.guard("chain-roundtrip:construct", wit, build, case)
    if not ok:
        return
    contracts.drain()
    if ctx.rng.random() < 0.3:
        # other read-only queries on the same object come first: they must not change what to_dict() reports
        ctx.hit("queried-before-to_dict")
        ctx.guard("chain-roundtrip:query-before", wit, lambda: (dc.visible_bf, dc.flatten(), dc.to_string(), dc.ndecays))
    ok, d = ctx.guard("chain-roundtrip:to_dict", wit, dc.to_dict)
    for v in contracts.drain():
        ctx.violate(v["mechanism"], v["message"], wit)
    if not ok:
        return
    # direct: dictionary form spells out the generator's chain
    ctx.mon("C11.direct.chain")
    exp = dict_of(types, m, case["meta"])
    if canon_dict(d) != canon_dict(exp):
        ctx.violate("chain-to_dict:direct", f"to_dict() = {str(d)[:600]} differs from the chain given {str(exp)[:600]}", wit)
    if ctx.rng.random() < 0.15 and chains.depth_of(types, m) >= 2:
        # the caller's dictionary is first handed over in a state the library refuses (a nested table damaged: no final-state entry, or two modes for a
        # particle of a single chain), or the conversion is abandoned at a random line (Ctrl-C); the caller repairs the SAME dictionary object and tries
        # again.  A refused or abandoned conversion leaves the caller's dictionary alone, and the retry gives the chain.
        import copy  # noqa: PLC0415

        from .. import trace  # noqa: PLC0415

        def nested(node, depth=0, acc=None):
            acc = [] if acc is None else acc
            (mm, modes), = node.items()
            for mode in modes:
                for x in mode["fs"]:
                    if isinstance(x, dict):
                        acc.append((depth + 1, x))
                        nested(x, depth + 1, acc)
            return acc

        subs = nested(d)
        if subs:
            how = ctx.rng.choice(["no-fs-entry", "two-modes", "abandoned"])
            ctx.hit("dictionary-handed-over-again-after-a-conversion-that-went-wrong:" + how)
            pristine = copy.deepcopy(d)
            _, victim = subs[-1] if ctx.rng.random() < 0.5 else ctx.rng.choice(subs)
            (vm, vmodes), = victim.items()
            try:
                if how == "no-fs-entry" and vmodes:
                    saved = vmodes[0].pop("fs")
                    try:
                        DecayChain.from_dict(d)
                    finally:
                        vmodes[0]["fs"] = saved
                elif how == "two-modes" and vmodes:
                    vmodes.append(copy.deepcopy(vmodes[0]))
                    try:
                        DecayChain.from_dict(d)
                    finally:
                        vmodes.pop()
                else:
                    fp = trace.Failpoint.get()
                    _, n = fp.count(DecayChain.from_dict, copy.deepcopy(d))
                    fp.inject(ctx.rng.randint(1, max(1, n)), DecayChain.from_dict, d)
            except Exception:  # noqa: BLE001, S110   the refusal itself is not judged
                pass
            contracts.drain()
            if d != pristine:
                ctx.violate("chain-roundtrip:callers-dictionary-changed-by-a-conversion-that-went-wrong", f"after {how}: {str(d)[:500]} was {str(pristine)[:500]}", {**wit, "went_wrong": how})
                d = pristine
    ok, back = ctx.guard("chain-roundtrip:from_dict-raised", wit, DecayChain.from_dict, d)
    if not ok:
        return
    reach = chains.reachable(types, m)
    bad = back.mother != m or set(back.decays) != set(reach)
    if not bad:
        for k in reach:
            dm = back.decays[k]
            if dm.bf != types[k][0] or Counter(dict(dm.daughters)) != Counter(types[k][1]) or norm_meta(dm.metadata) != norm_meta(case["meta"].get(k, {})):
                bad = True
    if bad:
        ctx.violate("chain-roundtrip:direct", f"from_dict(to_dict()) is not the chain given: {back.decays!r}", wit)
    ok, d2 = ctx.guard("chain-roundtrip:to_dict", wit, back.to_dict)
    contracts.drain()
    if ok and d2 != d:
        ctx.violate("chain-roundtrip:dict-not-stable", "to_dict(from_dict(to_dict())) differs from to_dict()", wit)
    _ = occ
    ctx.sample({"chain": case["chain"], "meta": case["meta"], "dict": d})


def dict_of(types, m, meta):
    fs = [dict_of(types, d, meta) if d in types else d for d in sorted(types[m][1])]
    return {m: [{"bf": types[m][0], "fs": fs, **norm_meta(meta.get(m, {}))}]}


def canon_dict(d):
    """Chain dictionary with every fs sorted (order of daughters is not part of the statement)."""
    (m, modes), = d.items()
    out = []
    for mode in modes:
        mm = dict(mode)
        mm["fs"] = sorted((canon_dict(x) if isinstance(x, dict) else x for x in mode["fs"]), key=repr)
        if mm.get("model_params") is None:
            mm["model_params"] = ""
        out.append(mm)
    return {m: out}


def check_mode(ctx, fs, bf, meta):
    from decaylanguage import DecayMode  # noqa: PLC0415

    wit = {"kind": "mode", "fs": fs, "bf": bf, "meta": meta}
    ctx.case({"mode": fs, "bf": bf, "meta": meta}, nontrivial=sum(fs.values()) >= 2, workload="gen-mode")
    shared = None
    if ctx.rng.random() < 0.3:
        # the final state is handed over as a DaughtersDict object, which the caller goes on using for his next mode
        from decaylanguage import DaughtersDict  # noqa: PLC0415

        shared = DaughtersDict(dict(fs))
        ctx.hit("mode-built-from-a-final-state-object-the-caller-edits-afterwards")
        wit["given_as"] = "DaughtersDict object, edited after construction"
    ok, dm = ctx.guard("mode-roundtrip:construct", wit, lambda: DecayMode(bf, shared if shared is not None else dict(fs), **meta))
    if not ok:
        return
    if shared is not None:
        shared["pi0"] += 2
        shared["<edited>"] = 1
    ok, d = ctx.guard("mode-roundtrip:to_dict", wit, dm.to_dict)
    for v in contracts.drain():
        ctx.violate(v["mechanism"], v["message"], wit)
    if not ok:
        return
    ctx.mon("C11.direct.mode")
    exp = {"bf": bf, "fs": sorted(Counter({k: v for k, v in fs.items() if v > 0}).elements()), **norm_meta(meta)}
    if d != exp:
        ctx.violate("mode-to_dict:direct", f"to_dict() = {d!r}, expected {exp!r}", wit)
    present = [k for k, v in fs.items() if v > 0]
    if present and ctx.rng.random() < 0.3:
        # the caller exchanges one daughter for another on the object itself (same number of particles) and converts again
        ctx.hit("mode-edited-in-place-then-converted-again")
        old = present[0]
        dm.daughters[old] -= 1
        dm.daughters["eta'"] += 1
        fs2 = Counter({k: v for k, v in fs.items() if v > 0})
        fs2[old] -= 1
        fs2["eta'"] += 1
        exp2 = {"bf": bf, "fs": sorted((+fs2).elements()), **norm_meta(meta)}
        ok2, d2 = ctx.guard("mode-roundtrip:to_dict-after-edit", wit, dm.to_dict)
        contracts.drain()
        if ok2 and d2 != exp2:
            ctx.violate("mode-to_dict:after-in-place-edit", f"to_dict() = {d2!r} after exchanging {old} for eta', expected {exp2!r}", wit)
        if ok2 and dm.daughters.to_list() != exp2["fs"]:
            ctx.violate("final-state:to_list-after-in-place-edit", f"to_list() = {dm.daughters.to_list()!r}, expected {exp2['fs']!r}", wit)
        return
    ok, back = ctx.guard("mode-roundtrip:from_dict-raised", wit, DecayMode.from_dict, d)
    if ok and (back.bf != bf or Counter(dict(back.daughters)) != Counter({k: v for k, v in fs.items() if v > 0}) or norm_meta(back.metadata) != norm_meta(meta)):
        ctx.violate("mode-roundtrip:direct", f"from_dict(to_dict()) differs: {back.to_dict()!r}", wit)


def check_final_state(ctx, ids):
    """The same final state built from a string, a list, a tuple, a mapping and PDG IDs."""
    from decaylanguage import DaughtersDict, DecayMode  # noqa: PLC0415

    rng = ctx.rng
    t = names.tables()
    nm = [t["id_evt"][i] for i in ids]
    wit = {"kind": "fs", "ids": ids}
    ctx.case({"fs-ids": sorted(ids)}, nontrivial=len(ids) >= 2, workload="gen-fs")
    ctx.hit("four-constructions")
    exp = Counter(nm)
    shuffled = nm[:]
    rng.shuffle(shuffled)
    sep = rng.choice([" ", "  ", " \t ", "\n"])
    builds = {
        "string": lambda: DaughtersDict(rng.choice(["", " "]) + sep.join(shuffled) + rng.choice(["", "  "])),
        "list": lambda: DaughtersDict(list(shuffled)),
        "tuple": lambda: DaughtersDict(tuple(reversed(shuffled))),
        "mapping": lambda: DaughtersDict(dict(exp)),
        "mapping+zero": lambda: DaughtersDict({**dict(exp), "ghost": 0, "neg": -1}),
        "pdgids": lambda: DecayMode.from_pdgids(0.5, list(ids)).daughters,
        "pdgids-tuple": lambda: DecayMode.from_pdgids(0.5, tuple(reversed(ids))).daughters,
        "mode-fs-kw": lambda: DecayMode(0.5, fs=list(shuffled)).daughters,
        # names and name=count keywords together (counts add up, as for collections.Counter); only names that are identifiers can be keywords
        "string+keywords": lambda: DaughtersDict(sep.join(shuffled[: len(shuffled) // 2]), **dict(Counter(x for x in shuffled[len(shuffled) // 2:]))),
    }
    if not all(x.isidentifier() for x in shuffled[len(shuffled) // 2:]):
        del builds["string+keywords"]
    else:
        ctx.hit("names-and-keywords-together")
    ctx.hit("zero-or-negative-count-in-mapping")
    canon_list = sorted(nm)
    for how, fn in builds.items():
        ok, dd = ctx.guard("final-state:" + how, wit, fn)
        if not ok:
            continue
        ctx.mon("C11.direct.final_state")
        w = {**wit, "how": how, "names": shuffled}
        if Counter({k: v for k, v in dict(dd).items() if v > 0}) != exp:
            ctx.violate("final-state:content:" + how, f"built from {how}: {dict(dd)} != {dict(exp)}", w)
            continue
        if len(dd) != len(nm):
            ctx.violate("final-state:len", f"len {len(dd)} != {len(nm)} ({how})", w)
        if dd.to_list() != canon_list or dd.to_string() != " ".join(canon_list):
            ctx.violate("final-state:not-canonical", f"to_list {dd.to_list()} / to_string {dd.to_string()!r} not the sorted multiset ({how})", w)
        if sorted(dd) != canon_list:
            ctx.violate("final-state:iteration", f"iteration gives {sorted(dd)}", w)
    # addition keeps multiplicities
    half = len(nm) // 2
    ok, s = ctx.guard("final-state:add", wit, lambda: DaughtersDict(nm[:half]) + DaughtersDict(nm[half:]))
    if ok and (Counter(dict(s)) != exp or type(s) is not DaughtersDict):
        ctx.violate("final-state:add", f"sum of halves {dict(s)} != {dict(exp)}", wit)


def check_parser_chain(ctx, case):
    """one decay line per particle -> build_decay_chains -> DecayChain.from_dict -> to_dict == parser dict up to daughter order."""
    from decaylanguage import DecayChain, DecFileParser  # noqa: PLC0415

    types, m = case["chain"]["types"], case["chain"]["mother"]
    models = case["models"]
    text = ""
    for k, (bf, ds) in types.items():
        mod, params = models[k]
        text += f"Decay {k}\n  {bf!r} {' '.join(ds)} {mod} {' '.join(params)};\nEnddecay\n"
    wit = {"kind": "parser", **case}
    ctx.case({"parser": text}, nontrivial=len(types) > 1, workload="gen-parser")
    ctx.hit("parser-chain")
    if any(k >= 2 and d in types for t in types.values() for d, k in Counter(t[1]).items()):
        ctx.hit("parser-chain-repeated-daughter")

    def run():
        p = DecFileParser.from_string(text)
        with warnings.catch_warnings():
            warnings.simplefilter("ignore")
            p.parse()
        return p.build_decay_chains(m)

    ok, pd_ = ctx.guard("parser-chain:build", wit, run)
    if not ok:
        return
    ok, dc = ctx.guard("parser-chain:from_dict-raised", wit, DecayChain.from_dict, pd_)
    if not ok:
        return
    ok, d = ctx.guard("parser-chain:to_dict", wit, dc.to_dict)
    for v in contracts.drain():
        ctx.violate(v["mechanism"], v["message"], wit)
    if not ok:
        return
    ctx.mon("C11.direct.parser_chain")
    if canon_dict(d) != canon_dict(pd_):
        ctx.violate("parser-chain:dict-differs", f"class form gives {str(canon_dict(d))[:500]} for parser dict {str(canon_dict(pd_))[:500]}", wit)
    for k in chains.reachable(types, m):
        dm = dc.decays.get(k)
        if dm is None or dm.bf != types[k][0] or Counter(dict(dm.daughters)) != Counter(types[k][1]) or dm.metadata.get("model") != models[k][0].replace("PHOTOS ", ""):
            ctx.violate("parser-chain:mode-differs", f"decay of {k} in class form: {dm!r}", wit)
            break


def run(ctx):
    contracts.arm("chain_to_dict", "mode_to_dict")
    rng = ctx.rng
    nmax = ctx.pick(5, 6)
    names_all = ["D*+", "D0", "K_S0", "pi0", "K_1(1270)+", "f'_0"]
    leaves = ["pi+", "gamma", "K-", "e+"]
    idx = 0
    for n in range(1, nmax + 1):
        for parents in chains.increasing_trees(n):
            for mults in itertools.product((1, 2, 4) if n <= 4 else (1, 2), repeat=n - 1):
                idx += 1
                if not ctx.mine(idx):
                    continue
                kids = Counter(parents)
                leafc = [(0 if kids[i] and i % 3 == 0 else 1 + (i % 2)) for i in range(n)]
                bfs = [round(0.05 + 0.9 * ((7 * i + 3 * n + idx) % 17) / 17, 4) for i in range(n)]
                ch = chains.chain_from_shape(parents, (0, *mults), leafc, names_all[:n], leaves, bfs)
                order = list(ch["types"])
                if idx % 2:
                    rng.shuffle(order)
                check_chain(ctx, {"chain": ch, "order": order, "meta": {k: gen_meta(rng) for k in ch["types"]}}, "enum")
    for _ in range(ctx.pick(300, 3000)):
        n = rng.choice([1, 2, 3, 4, 5, 6, 8, 12])
        ch = chains.random_chain(rng, n, max_mult=rng.choice([2, 3, 4]), empty=0.12)
        if rng.random() < 0.25:
            # branching fractions with all the digits a double has, and at the small end of the range: the round trip keeps the number itself
            for k in ch["types"]:
                if rng.random() < 0.6:
                    ch["types"][k][0] = rng.choice([rng.random(), 1 / 3, 0.1 + 0.2, 2.5e-17, 1e-300, 4.9e-324, 0.9999999999999999, 1.2345678901234567e-5])
            ctx.hit("branching-fractions-with-17-digits-or-tiny")
        if any(not v[1] for v in ch["types"].values()):
            ctx.hit("sub-decay-without-daughters")
        order = list(ch["types"])
        rng.shuffle(order)
        check_chain(ctx, {"chain": ch, "order": order, "meta": {k: gen_meta(rng) for k in ch["types"]}}, "gen")
    evt = names.evtgen_names()
    for _ in range(ctx.pick(400, 4000)):
        fs = {rng.choice(evt + chains.ODD_NAMES): rng.choice([1, 1, 2, 3, 4, 0]) for _ in range(rng.randint(0, 5))}
        check_mode(ctx, fs, rng.choice([0, 1, 0.5, 1e-7, round(rng.random(), 5)]), gen_meta(rng))
    # every PDG ID of the EvtGen table through from_pdgids, in random multisets
    t = names.tables()
    ids = sorted(t["id_evt"])
    mine = [ids[i] for i in ctx.share(len(ids))]
    rng.shuffle(mine)
    pos = 0
    while pos < len(mine):
        k = rng.choice([1, 2, 3, 4, 5])
        chunk = mine[pos: pos + k]
        pos += k
        extra = [rng.choice(chunk) for _ in range(rng.choice([0, 1, 3]))]
        check_final_state(ctx, chunk + extra)
    ctx.hit("pdgid-all-ids")
    ctx.note("pdg_ids_through_from_pdgids", len(mine))
    # unknown PDG ID must raise ParticleNotFound (documented), nothing else
    from decaylanguage import DecayMode  # noqa: PLC0415
    from particle import ParticleNotFound  # noqa: PLC0415

    try:
        DecayMode.from_pdgids(0.1, [211, 999999999])
        ctx.violate("from_pdgids:unknown-id-accepted", "from_pdgids accepted an unknown PDG ID", {"kind": "fs", "ids": [211, 999999999]})
    except ParticleNotFound:
        ctx.mon("C11.from_pdgids.notfound")
    except Exception as e:  # noqa: BLE001
        ctx.violate("from_pdgids:wrong-exception", f"{type(e).__name__}: {e}", {"kind": "fs", "ids": [211, 999999999]})
    # parser chains
    mods = [("PHSP", []), ("VSS", []), ("HELAMP", ["1.0", "0.0", "-1.0", "0.5"]), ("SVS", []), ("VSS_BMIX", ["0.5"]), ("PHOTOS PHSP", [])]
    for _ in range(ctx.pick(60, 600)):
        n = rng.choice([1, 2, 3, 4, 6])
        nm = rng.sample(["D*+", "D0", "K_S0", "pi0", "B0", "K*0", "rho0", "J/psi", "MyD0", "X_sig", "a_1+", "eta'", "tau+"], n)
        ch = chains.random_chain(rng, n, max_mult=2, names=nm)
        for k in ch["types"]:
            ch["types"][k][1] = [d for d in ch["types"][k][1] if d not in ("zz~", "l'", "b(1)")] or ["gamma"]
        check_parser_chain(ctx, {"chain": ch, "models": {k: list(rng.choice(mods)) for k in ch["types"]}})
    for name, n in contracts.COUNTS.items():
        if name.startswith("C11."):
            ctx.mon(name, n)


def replay(ctx, w):
    contracts.arm("chain_to_dict", "mode_to_dict")
    kind = w.pop("kind")
    if kind == "chain":
        check_chain(ctx, w, "replay")
    elif kind == "mode":
        check_mode(ctx, w["fs"], w["bf"], w["meta"])
    elif kind == "fs":
        check_final_state(ctx, w["ids"])
    else:
        check_parser_chain(ctx, w)
