"""C12 -- flattening multiplies branching fractions and keeps exactly the leaves.

Workloads: W-enum (every rooted tree shape up to N decaying particles x multiplicities 1..3 x every
subset of decaying particles as stable set x permutations of the `decays` mapping) and W-gen (random
larger chains in which a decaying particle re-occurs under several parents / at several depths).
Monitors: the icontract post-conditions on the real DecayChain.flatten (reference = leaves / product of
the object's own public state, snapshot taken before the call) plus a direct comparison with the
generator's abstract chain (independent of the object) and visible_bf == flatten().bf.
"""
from __future__ import annotations

import itertools
import math
from collections import Counter

from .. import chains, contracts

RULE = ("one case = (type-level chain, order of the decays mapping, stable set, container type); enumerated over all rooted "
        "tree shapes x multiplicities (W-enum) and random DAG-shaped chains (W-gen); non-trivial = at least one sub-decay is "
        "substituted (a decaying daughter outside the stable set); distinct by hash of the canonical case")
ANCHORS = ["decaylanguage.decay.decay:DecayChain.flatten"]
WORKERS = {"quick": 4, "thorough": 16}
WATCHDOG = {"quick": 600, "thorough": 3000}
WTESTS = {"groups": ['flatten'], "tests": ['tests/decay']}
REQUIRED = {"flatten-abandoned-at-a-random-line:interrupted": 100, "one-body-decay-at-the-top": 10, "sub-decay-changed-through-the-decays-mapping-after-the-first-question:mode-exchanged": 20, "sub-decay-changed-through-the-decays-mapping-after-the-first-question:final-state-edited-in-place": 20, "cascade-deeper-than-10-levels:child-first": 3, "sub-decay-without-daughters": 10, 
    "subdecays>=4": 20, "mult3-of-decaying": 20, "reoccur-two-depths": 20, "mother-last": 20, "stable-nonempty": 20,
    "stable-as-set": 5, "stable-as-tuple": 5, "visible_bf": 20, "same-shape-other-branching-fractions": 20, "returned-chain-edited-then-original-compared": 50, "flatten-without-stable-set-after-one-with": 50, "all-sub-decays-with-bf-exactly-1": 20, "a-sub-decay-with-bf-exactly-0": 20,
    "C12.flatten.leaves_and_product": 500, "C12.flatten.original_unchanged": 500,
}
EXHAUSTIVE_NOTE = "W-enum is exhaustive over increasing-tree shapes with <= N decaying particles (N=5 quick, 6 thorough), child multiplicities 1..3, all stable subsets"
ASSUMPTIONS = ["collections.Counter arithmetic is trusted", "chains are acyclic and the stable set does not contain the mother (as quantified)"]

META = {"model": "PHSP", "model_params": [1.0, "x"], "note": {"k": [1, "two"], "deep": {"a": None}}, "flag": True}


def build(case):
    from decaylanguage import DecayChain, DecayMode  # noqa: PLC0415

    types = case["chain"]["types"]
    order = case.get("order") or list(types)
    decays = {}
    for k in order:
        bf, ds = types[k]
        meta = dict(META) if k == case["chain"]["mother"] else {"model": "VSS", "note": k}
        decays[k] = DecayMode(bf, list(ds), **meta)
    return DecayChain(case["chain"]["mother"], decays)


def check_case(ctx, case, workload="enum"):
    types = case["chain"]["types"]
    m = case["chain"]["mother"]
    S = case["stable"]
    stype = case.get("stable_type", "list")
    sarg = {"list": list, "tuple": tuple, "set": set}[stype](S)
    nontrivial = any(d in types and d not in S for d in types[m][1])
    ctx.case(case, nontrivial, workload)
    ok, dc = ctx.guard("flatten:construct", {"kind": "flatten", **case}, build, case)
    if not ok:
        return
    wit = {"kind": "flatten", **case}
    contracts.drain()
    ok, fl = ctx.guard("flatten", wit, (lambda: dc.flatten(stable_particles=sarg) if S or stype != "list" else dc.flatten()))
    for v in contracts.drain():
        ctx.violate(v["mechanism"], v["message"], wit)
    if not ok:
        return
    # direct comparison with the generator's abstract chain (independent of the object's own state)
    ctx.mon("C12.direct")
    leaves, bf = chains.ref_leaves(types, m, set(S))
    top = fl.decays[m]
    if Counter({k: v for k, v in dict(top.daughters).items() if v}) != leaves or not math.isclose(top.bf, bf, rel_tol=1e-9, abs_tol=1e-290):
        ctx.violate("flatten:direct", f"flatten gave {dict(top.daughters)} bf={top.bf}, expected {dict(leaves)} bf={bf}", wit)
    if top.metadata.get("note") != META["note"] or top.metadata.get("model") != "PHSP" or top.metadata.get("flag") is not True \
            or top.metadata.get("model_params") != META["model_params"]:
        ctx.violate("flatten:metadata", f"top-level metadata lost: {top.metadata!r}", wit)
    if ctx.rng.random() < 0.3:
        # the caller edits the chain he was given (its own metadata dictionary, final state, branching fraction): the original chain and a
        # second flattening are untouched.  (Values *nested inside* the metadata are shared by construction, as with DecayMode(**metadata); not edited.)
        import copy  # noqa: PLC0415

        ctx.hit("returned-chain-edited-then-original-compared")
        before = copy.deepcopy(dc.to_dict())
        first = copy.deepcopy(fl.to_dict())
        top.metadata["model"] = "EDITED"
        top.metadata.pop("flag", None)
        top.metadata["added"] = 1
        top.daughters["<edited>"] = 3
        top.bf = -1.0
        if dc.to_dict() != before:
            ctx.violate("flatten:original-changes-with-edits-of-the-result", f"original chain after editing the flattened one: {dc.to_dict()!r}, before: {before!r}", wit)
        ok2, fl2 = ctx.guard("flatten:again", wit, (lambda: dc.flatten(stable_particles=sarg) if S or stype != "list" else dc.flatten()))
        contracts.drain()
        if ok2 and fl2.to_dict() != first:
            ctx.violate("flatten:second-result-depends-on-edits-of-the-first", f"{fl2.to_dict()!r} vs first {first!r}", wit)
    if ctx.rng.random() < 0.1:
        # a flattening abandoned at a random line of the library's code (Ctrl-C in the middle of it): the chain is what it was, and the next flattening is right
        import copy  # noqa: PLC0415

        from .. import trace  # noqa: PLC0415

        fp = trace.Failpoint.get()
        call = (lambda: dc.flatten(stable_particles=sarg)) if S or stype != "list" else dc.flatten
        before = copy.deepcopy(dc.to_dict())
        contracts.drain()
        _, n = fp.count(call)
        status, where = fp.inject(ctx.rng.randint(1, max(1, n)), call)
        contracts.drain()
        ctx.hit("flatten-abandoned-at-a-random-line:" + status)
        w6 = {**wit, "abandoned_at": where}
        if dc.to_dict() != before:
            ctx.violate("flatten:original-changed-by-an-abandoned-call", f"chain after a flatten abandoned at {where}: {dc.to_dict()!r}, before: {before!r}", w6)
        ok6, fl6 = ctx.guard("flatten:after-abandoned-call", w6, call)
        contracts.drain()
        if ok6:
            t6 = fl6.decays[m]
            if Counter({a: b for a, b in dict(t6.daughters).items() if b}) != leaves or not math.isclose(t6.bf, bf, rel_tol=1e-9, abs_tol=1e-290):
                ctx.violate("flatten:wrong-after-an-abandoned-call", f"flatten after a call abandoned at {where} gave {dict(t6.daughters)} bf={t6.bf}, expected {dict(leaves)} bf={bf}", w6)
        # ... and the other questions: nothing kept stable any more
        leaves0, bf0 = chains.ref_leaves(types, m, set())
        ok7, vb7 = ctx.guard("visible_bf:after-abandoned-call", w6, lambda: dc.visible_bf)
        contracts.drain()
        if ok7 and not math.isclose(vb7, bf0, rel_tol=1e-9, abs_tol=1e-290):
            ctx.violate("visible_bf:wrong-after-an-abandoned-flatten", f"visible_bf {vb7} after a flatten(stable_particles={S}) abandoned at {where}; product of the whole tree {bf0}", w6)
        ok8, fl8 = ctx.guard("flatten:after-abandoned-call", w6, dc.flatten)
        contracts.drain()
        if ok8:
            t8 = fl8.decays[m]
            if Counter({a: b for a, b in dict(t8.daughters).items() if b}) != leaves0 or not math.isclose(t8.bf, bf0, rel_tol=1e-9, abs_tol=1e-290):
                ctx.violate("flatten:wrong-after-an-abandoned-call", f"flatten() after flatten(stable_particles={S}) abandoned at {where} gave {dict(t8.daughters)} bf={t8.bf}, expected {dict(leaves0)} bf={bf0}", w6)
    if S and ctx.rng.random() < 0.3:
        # the next question to the same chain, without a stable set: everything is substituted, whatever was asked before
        ctx.hit("flatten-without-stable-set-after-one-with")
        leaves0, bf0 = chains.ref_leaves(types, m, set())
        for which in ((3, 4) if ctx.rng.random() < 0.5 else (4, 3)):     # the two follow-up questions in either order
            if which == 3:
                ok3, fl3 = ctx.guard("flatten:after-stable", wit, dc.flatten)
                contracts.drain()
                if ok3:
                    t3 = fl3.decays[m]
                    if Counter({k: v for k, v in dict(t3.daughters).items() if v}) != leaves0 or not math.isclose(t3.bf, bf0, rel_tol=1e-9, abs_tol=1e-290):
                        ctx.violate("flatten:depends-on-an-earlier-call-with-a-stable-set", f"flatten() after flatten(stable_particles={S}) gave {dict(t3.daughters)} bf={t3.bf}, expected {dict(leaves0)} bf={bf0}", wit)
            else:
                ok4, vb4 = ctx.guard("visible_bf:after-stable", wit, lambda: dc.visible_bf)
                contracts.drain()
                if ok4 and not math.isclose(vb4, bf0, rel_tol=1e-9, abs_tol=1e-290):
                    ctx.violate("visible_bf:depends-on-an-earlier-flatten-with-a-stable-set", f"visible_bf {vb4} after flatten(stable_particles={S}), product of the whole tree {bf0}", wit)
    if len(types) >= 3 and ctx.rng.random() < 0.25:
        # after the first question a sub-decay is exchanged through the chain's public `decays` mapping (same keys, another final state that now
        # contains one more decaying particle of the chain), or its final state is edited in place: the next answers describe the chain as it is now
        from decaylanguage import DecayMode  # noqa: PLC0415

        cands = []
        for k in types:
            if k == m:
                continue
            for y in types:
                if y not in (k, m) and k not in chains.reachable(types, y) and y not in S:
                    cands.append((k, y))
        if cands:
            k, y = ctx.rng.choice(cands)
            how = ctx.rng.choice(["mode-exchanged", "final-state-edited-in-place"])
            ctx.hit("sub-decay-changed-through-the-decays-mapping-after-the-first-question:" + how)
            types2 = {a: [b[0], list(b[1])] for a, b in types.items()}
            types2[k][1].append(y)
            if how == "mode-exchanged":
                types2[k][0] = round(types[k][0] * 0.5 + 0.01, 6)
                dc.decays[k] = DecayMode(types2[k][0], list(types2[k][1]), model="VSS", note=k)
            else:
                dc.decays[k].daughters[y] += 1
            w5 = {**wit, "then": [how, k, y]}
            leaves5, bf5 = chains.ref_leaves(types2, m, set(S))
            ok5, fl5 = ctx.guard("flatten:after-change", w5, (lambda: dc.flatten(stable_particles=sarg) if S or stype != "list" else dc.flatten()))
            for v in contracts.drain():
                ctx.violate(v["mechanism"], v["message"], w5)
            if ok5:
                t5 = fl5.decays[m]
                if Counter({a: b for a, b in dict(t5.daughters).items() if b}) != leaves5 or not math.isclose(t5.bf, bf5, rel_tol=1e-9, abs_tol=1e-290):
                    ctx.violate("flatten:stale-after-a-sub-decay-was-changed", f"after {how} of {k} (+{y}): flatten gave {dict(t5.daughters)} bf={t5.bf}, expected {dict(leaves5)} bf={bf5}", w5)
            return
    # classes
    occ = chains.occurrences(types, m)
    if len(types) - 1 >= 4 and not S:
        ctx.hit("subdecays>=4")
    if any(k >= 3 and d in types and d not in S for t in types.values() for d, k in Counter(t[1]).items()):
        ctx.hit("mult3-of-decaying")
    if any(len(v) >= 2 for v in chains.depths(types, m).values()):
        ctx.hit("reoccur-two-depths")
    if (case.get("order") or [m])[-1] == m and len(types) > 1:
        ctx.hit("mother-last")
    if S:
        ctx.hit("stable-nonempty")
        ctx.hit("stable-as-" + stype)
    if max(occ.values()) >= 4:
        ctx.hit("occurs>=4x")
    if not S and case.get("visible"):
        ok, vb = ctx.guard("visible_bf", wit, lambda: dc.visible_bf)
        for v in contracts.drain():
            ctx.violate(v["mechanism"], v["message"], wit)
        if ok:
            ctx.hit("visible_bf")
            if not math.isclose(vb, bf, rel_tol=1e-9, abs_tol=1e-290):
                ctx.violate("visible_bf", f"visible_bf {vb} != product {bf}", wit)
    if not S and case.get("visible") and not case.get("rescaled"):
        # the same tree with other branching fractions, in the same interpreter
        ctx.hit("same-shape-other-branching-fractions")
        ch2 = {"mother": m, "types": {k: [round(v[0] * 0.5 + 0.01, 6), v[1]] for k, v in types.items()}}
        check_case(ctx, {**case, "chain": ch2, "rescaled": True}, workload)
    ctx.sample({"chain": case["chain"], "order": case.get("order"), "stable": S, "flattened_fs": dict(leaves), "bf": bf})


def enum_cases(ctx, nmax):
    names_all = ["D*+", "D0", "K_S0", "pi0", "K_1(1270)+", "f'_0"]
    leaves = ["pi+", "gamma", "K-", "e+"]
    idx = 0
    for n in range(1, nmax + 1):
        for parents in chains.increasing_trees(n):
            for mults in itertools.product((1, 2, 3), repeat=n - 1):
                idx += 1
                if not ctx.mine(idx):
                    continue
                mm = (0, *mults)
                kids = Counter(parents)
                leafc = [(1 if kids[i] else 1 + (i % 2)) for i in range(n)]
                bfs = [round(0.05 + 0.9 * ((7 * i + 3 * n + idx) % 17) / 17, 4) for i in range(n)]
                ch = chains.chain_from_shape(parents, mm, leafc, names_all[:n], leaves, bfs)
                yield ch


def orders_for(ctx, names, m):
    names = list(names)
    if len(names) <= 3:
        return [list(p) for p in itertools.permutations(names)]
    rest = [x for x in names if x != m]
    out = [names, [*rest, m], [*reversed(rest), m]]
    for _ in range(2):
        p = names[:]
        ctx.rng.shuffle(p)
        out.append(p)
    return out


def run(ctx):
    contracts.arm("flatten")
    nmax = ctx.pick(5, 6)
    stypes = ["list", "tuple", "set"]
    k = 0
    for ch in enum_cases(ctx, nmax):
        names = list(ch["types"])
        m = ch["mother"]
        others = [x for x in names if x != m]
        subsets = [list(c) for r in range(len(others) + 1) for c in itertools.combinations(others, r)]
        orders = orders_for(ctx, names, m)
        if len(names) >= 5:  # bound the product: all subsets, orders rotated over them
            pairs = [(S, orders[(i + k) % len(orders)]) for i, S in enumerate(subsets)]
            pairs.append(([], orders[1]))
        else:
            pairs = [(S, o) for S in subsets for o in orders]
        for S, o in pairs:
            k += 1
            check_case(ctx, {"chain": ch, "order": o, "stable": S, "stable_type": stypes[k % 3], "visible": k % 5 == 0}, "enum")
            if len(ctx.violations) >= ctx.max_violations:
                return
    # random DAG-shaped chains
    for i in range(ctx.pick(400, 3000)):
        n = ctx.rng.choice([2, 3, 4, 5, 6, 8, 12])
        ch = chains.random_chain(ctx.rng, n, empty=0.12)
        if any(not v[1] for v in ch["types"].values()):
            ctx.hit("sub-decay-without-daughters")
        if i % 5 == 1:
            # branching fractions that are exactly 1 (every sub-decay) or exactly 0 (one of them): the product does not move when they are multiplied in
            for kk, v in ch["types"].items():
                if kk != ch["mother"]:
                    v[0] = 1.0
            ctx.hit("all-sub-decays-with-bf-exactly-1")
        elif i % 5 == 2 and len(ch["types"]) >= 3:
            ch["types"][list(ch["types"])[1]][0] = 0.0
            ctx.hit("a-sub-decay-with-bf-exactly-0")
        names = list(ch["types"])
        m = ch["mother"]
        others = [x for x in names if x != m]
        for j in range(4):
            o = names[:]
            ctx.rng.shuffle(o)
            if j == 1:
                o = [*[x for x in o if x != m], m]
            if j == 2:
                o = list(reversed(names))        # every child in front of its parent (the order DecayChain.from_dict produces)
            S = [] if j == 0 else ctx.rng.sample(others, ctx.rng.randint(0, min(3, len(others))))
            check_case(ctx, {"chain": ch, "order": o, "stable": S, "stable_type": stypes[(i + j) % 3], "visible": j == 0}, "gen")
    # one-body decays at the top (K0 -> K_S0, B0 -> MyB0): the whole final state of the mother is replaced in one substitution
    for i in range(ctx.pick(40, 300)):
        r = ctx.rng
        a, b, c = r.sample(["K_S0", "pi0", "MyD0", "eta", "K*0", "rho0", "omega", "phi"], 3)
        top = r.choice(["K0", "B0", "MyB0", "X(3872)"])
        types = {top: [round(r.uniform(0.05, 0.95), 4), [a]],
                 a: [round(r.uniform(0.05, 0.95), 4), [b] * r.choice([1, 2]) + r.choice([[], ["gamma"], [c]])],
                 b: [round(r.uniform(0.05, 0.95), 4), r.choice([["gamma", "gamma"], ["pi+", "pi-"], [c, "gamma"]])]}
        if any(c in v[1] for v in types.values()):
            types[c] = [round(r.uniform(0.05, 0.95), 4), ["e+", "e-"]]
        ch = {"mother": top, "types": types}
        names = list(types)
        ctx.hit("one-body-decay-at-the-top")
        for j in range(3):
            o = names[:] if j == 0 else (list(reversed(names)) if j == 1 else r.sample(names, len(names)))
            S = [] if j < 2 else r.sample(names[1:], r.randint(0, 1))
            check_case(ctx, {"chain": ch, "order": o, "stable": S, "stable_type": stypes[j], "visible": True}, "gen")
    # long cascades (one decaying daughter per level), the mapping given parent-first, child-first and shuffled
    for depth in (11, 13, 17, 24, 32):
        if not ctx.mine(depth):
            continue
        ch = chains.ladder(ctx.rng, depth, ctx.rng.choice([0, 1, 2]))
        names = list(ch["types"])
        others = names[1:]
        for j, o in enumerate((names, list(reversed(names)), ctx.rng.sample(names, len(names)))):
            S = [] if j < 2 else [ctx.rng.choice(others[len(others) // 2:])]
            ctx.hit("cascade-deeper-than-10-levels" + (":child-first" if j == 1 else ""))
            check_case(ctx, {"chain": ch, "order": o, "stable": S, "stable_type": stypes[j], "visible": j == 1}, "gen")
    b = contracts.Budget.get()
    ctx.note("max_line_events_in_one_flatten", b.max_seen)
    for name, n in contracts.COUNTS.items():
        if name.startswith("C12."):
            ctx.mon(name, n)


def replay(ctx, witness):
    contracts.arm("flatten")
    check_case(ctx, {k: v for k, v in witness.items() if k != "kind"}, "replay")
