"""C13 -- a decay descriptor string determines the decay tree it was made from.

Monitors: (1) icontract post-condition on the real DecayChain.to_string: the string read back by bracket
matching equals the tree of the object's own public state; (2) direct comparison with the generator's
tree; (3) order independence: the same tree supplied in many daughter / sub-decay orders gives one
identical string; (4) injectivity: two different generated trees never share a string; (5) a family of
bracketing pattern pairs through the DescriptorFormat context: the top level must be read with
pattern 1's arrow/brackets and every nested level with pattern 2's.
"""
from __future__ import annotations

import itertools
from collections import Counter

from .. import chains, contracts, core

RULE = ("one case per (type-level chain, pattern pair); each case renders the chain in 3..24 input orders; non-trivial = nesting depth >= 2; "
        "distinct by canonical hash of (tree, pattern pair)")
ANCHORS = ["decaylanguage.decay.decay:DecayChain.to_string", "decaylanguage.decay.decay:_expand_decay_modes",
           "decaylanguage.utils.utilities:DescriptorFormat.format_descriptor"]
WORKERS = {"quick": 4, "thorough": 16}
WTESTS = {"groups": ['to_string'], "tests": ['tests/decay', 'tests/utils']}
REQUIRED = {"flattened-chain-rendered": 20, "rendering-after-one-that-went-wrong:abandoned": 20, "object-hashed-compared-printed-or-copied-before-rendering": 50, "object-hashed-compared-printed-or-copied-inside-a-format-block": 20, "built-from-the-dictionary-form": 50, "cascade-of-10-or-more-decays": 3, "sub-decay-without-daughters": 10, "depth>=3": 50, "name-with-paren": 50, "name-with-quote-or-sign": 50, "repeated-subdecay": 50, "orders-compared": 500, "queried-before-to_string": 50, "rendered-before-inside-after-block": 50, "context-object-re-entered-inside-its-block": 20, "rejected-format-request-before-rendering": 20, "block-left-through-an-exception": 20, "format-through-a-subclass": 20, "context-objects-prepared-before-nesting": 20, "config-assigned-by-hand-before-the-block": 20, "patterns-set-by-hand-and-handed-back": 20,
            **{f"pattern-pair-{i}": 20 for i in range(8)}, "C13.to_string.reads_back": 500}
EXHAUSTIVE_NOTE = "tree shapes <= 5 (quick) / 6 (thorough) decaying particles enumerated with multiplicities 1..2; all daughter orders for small chains"
ASSUMPTIONS = ["names contain no blanks and have balanced parentheses (all real particle names do)", "brackets of the pattern family do not occur in names"]

# (decay_pattern, sub_decay_pattern, reader arguments)
PATTERNS = [
    ("{mother} -> {daughters}", "({mother} -> {daughters})", dict(arrow="->", op="(", cl=")")),
    ("{mother} --> {daughters}", "[{mother} --> {daughters}]", dict(arrow="-->", op="[", cl="]")),
    ("{mother} => {daughters}", "<{mother} => {daughters}>", dict(arrow="=>", op="<", cl=">")),
    ("{mother} : {daughters}", "{{{mother} : {daughters}}}", dict(arrow=":", op="{", cl="}")),
    ("[{mother} -> {daughters}]", "({mother} => {daughters})", dict(arrow="=>", op="(", cl=")", top_arrow="->", top_op="[", top_cl="]")),
    ("{mother} ==> {daughters}", "<<{mother} -> {daughters}>>", dict(arrow="->", op="<<", cl=">>", top_arrow="==>")),
    ("TOP:{mother} to {daughters}", "[{mother} -> {daughters}]", dict(arrow="->", op="[", cl="]", top_arrow="to", top_op="TOP:", top_cl="")),
    ("{mother} -> {daughters}", "[{mother} -> {daughters}]", dict(arrow="->", op="[", cl="]")),
]

_seen: dict = {}


_built = [0]
_preset = []
_hits: list = []
_last: list = []


def _preset_class():
    if not _preset:
        from decaylanguage.utils import DescriptorFormat  # noqa: PLC0415

        class Preset(DescriptorFormat):
            """what a user writes to keep a house style: a subclass that only forwards its two patterns"""

            def __init__(self, top, sub):
                super().__init__(top, sub)

        _preset.append(Preset)
    return _preset[0]


def build(types, m, order, fs_orders):
    from decaylanguage import DaughtersDict, DecayChain, DecayMode  # noqa: PLC0415

    # every second chain gets its final states as DaughtersDict objects which the caller then goes on editing (to derive the next mode from them)
    given = {k: list(fs_orders.get(k, types[k][1])) for k in order}
    _built[0] += 1
    if _built[0] % 5 == 0:
        # the other documented constructor: the chain written down as a dictionary (daughters in the order given)
        _hits.append("built-from-the-dictionary-form")
        return DecayChain.from_dict(chains.ref_dict(types, m, given))
    if _built[0] % 2:
        return DecayChain(m, {k: DecayMode(types[k][0], given[k], model="PHSP") for k in order})
    objs = {k: DaughtersDict(given[k]) for k in order}
    dc = DecayChain(m, {k: DecayMode(types[k][0], objs[k], model="PHSP") for k in order})
    for o in objs.values():
        o["gamma"] += 1
        o["<edited>"] = 2
    return dc


def check_case(ctx, case, workload):
    from decaylanguage.utils import DescriptorFormat  # noqa: PLC0415

    types, m = case["chain"]["types"], case["chain"]["mother"]
    pi = case["pattern"]
    p1, p2, rd = PATTERNS[pi]
    wit = {"kind": "descriptor", **case}
    depth = chains.depth_of(types, m)
    ctx.case({"tree": repr(chains.ref_tree(types, m)), "pattern": pi}, nontrivial=depth >= 2, workload=workload)
    allnames = set(types) | {d for t in types.values() for d in t[1]}
    if depth >= 3:
        ctx.hit("depth>=3")
    if any("(" in n for n in allnames):
        ctx.hit("name-with-paren")
    if any("'" in n or "+" in n or "-" in n for n in allnames):
        ctx.hit("name-with-quote-or-sign")
    if any(k >= 2 and d in types for t in types.values() for d, k in Counter(t[1]).items()):
        ctx.hit("repeated-subdecay")
    ctx.hit(f"pattern-pair-{pi}")
    exp = chains.ref_tree(types, m)
    rng = ctx.rng
    names = list(types)
    # input orders: identity, reversed, mother last, random shuffles of the mapping and of every daughter list
    variants = [(names, {})]
    if len(names) <= 3 and sum(len(t[1]) for t in types.values()) <= 6:
        for o in itertools.permutations(names):
            for k in names:
                for fo in itertools.islice(itertools.permutations(types[k][1]), 6):
                    variants.append((list(o), {k: list(fo)}))
        variants = variants[:24]
    else:
        for _ in range(case.get("norders", 5)):
            o = names[:]
            rng.shuffle(o)
            fo = {}
            for k in names:
                x = types[k][1][:]
                rng.shuffle(x)
                fo[k] = x
            variants.append((o, fo))
        variants.append(([*[x for x in names if x != m], m], {k: sorted(types[k][1], reverse=True) for k in names}))
    strings = []
    for o, fo in variants:
        ok, dc = ctx.guard("descriptor:construct", wit, build, types, m, o, fo)
        while _hits:
            ctx.hit(_hits.pop())
        if not ok:
            return

        def render(dc=dc, first=(len(strings) == 0)):
            if rng.random() < 0.25:
                # what a user does with the object in passing (hashes it, compares it, prints it, copies it) -- here while the default format is in force
                ctx.hit("object-hashed-compared-printed-or-copied-before-rendering")
                core.poke(dc, rng)
            if first and rng.random() < 0.25:
                # earlier in the process a rendering went wrong: of this chain or of the previous one (same particle names, other decays), abandoned at a random
                # line of the library's code (Ctrl-C), or refused half-way because the top-level pattern in force cannot be applied to a name
                from .. import trace  # noqa: PLC0415

                victim = dc if (rng.random() < 0.5 or not _last) else _last[0]
                how = rng.choice(["abandoned", "abandoned", "unrenderable-top-pattern"])
                ctx.hit("rendering-after-one-that-went-wrong:" + how)
                if how == "abandoned":
                    fp = trace.Failpoint.get()
                    _, n = fp.count(victim.to_string)
                    fp.inject(rng.randint(max(1, n // 2), max(1, n)), victim.to_string)
                else:
                    try:
                        with DescriptorFormat("{mother:>12d} => {daughters}", "[{mother} => {daughters}]"):
                            victim.to_string()
                    except ValueError:
                        pass
                contracts.drain()
            if first and rng.random() < 0.4:
                # other read-only queries on the same object first
                ctx.hit("queried-before-to_string")
                _ = dc.visible_bf, dc.to_dict(), dc.flatten()
            def rejected_request():
                # a request with an acceptable first and an unacceptable second pattern is refused as a whole: the format in force stays
                ctx.hit("rejected-format-request-before-rendering")
                try:
                    DescriptorFormat.set_config("{mother} ~~> {daughters}", "({mother} ~~> {dots})")
                except ValueError:
                    pass
                else:
                    ctx.violate("descriptor:invalid-pattern-accepted", "set_config accepted a sub-decay pattern without {daughters}", wit)

            if pi == 0:
                if first and rng.random() < 0.3:
                    rejected_request()
                return dc.to_string()
            before = dc.to_string() if first else None
            if first and rng.random() < 0.2:
                # the patterns installed by hand: the caller keeps DescriptorFormat.config as it is, sets his own patterns, and hands the kept one back
                ctx.hit("patterns-set-by-hand-and-handed-back")
                kept = DescriptorFormat.config
                DescriptorFormat.set_config(p1, p2)
                inside = dc.to_string()
                DescriptorFormat.set_config(**kept)
                after = dc.to_string()
                if after != before:
                    ctx.violate("descriptor:differs-after-handing-back-the-kept-format", f"before {before!r}, after set_config(**kept) {after!r}", wit)
                    DescriptorFormat.set_config(PATTERNS[0][0], PATTERNS[0][1])
                return inside
            if _built[0] % 3 == 0:
                ctx.hit("format-through-a-subclass")
            if first and rng.random() < 0.2:
                # the format in force (the default) assigned by hand to the documented class variable, keys written in the other order
                ctx.hit("config-assigned-by-hand-before-the-block")
                DescriptorFormat.config = {"sub_decay_pattern": PATTERNS[0][1], "decay_pattern": PATTERNS[0][0]}
            fmt = (_preset_class() if _built[0] % 3 == 0 else DescriptorFormat)(p1, p2)     # every third time through a user's subclass of DescriptorFormat
            if first and rng.random() < 0.2:
                # two context objects prepared up front (both built while the default is in force), then nested: after the inner block the outer patterns are back
                ctx.hit("context-objects-prepared-before-nesting")
                q1, q2, _rd = PATTERNS[(pi % (len(PATTERNS) - 1)) + 1 if pi + 1 < len(PATTERNS) else 1]
                inner = DescriptorFormat(q1, q2)
                with fmt:
                    with inner:
                        dc.to_string()
                    inside = dc.to_string()
                after = dc.to_string()
                if after != before:
                    ctx.violate("descriptor:differs-after-format-block", f"before the blocks {before!r}, after them {after!r}", wit)
                return inside
            with fmt:
                if first and rng.random() < 0.3:
                    rejected_request()
                if rng.random() < 0.25:
                    ctx.hit("object-hashed-compared-printed-or-copied-inside-a-format-block")
                    core.poke(dc, rng)
                if first and rng.random() < 0.5:
                    # the same context object used again inside its own block (e.g. by a helper): afterwards its patterns are still in force
                    ctx.hit("context-object-re-entered-inside-its-block")
                    with fmt:
                        nested = dc.to_string()
                    inside = dc.to_string()
                    if nested != inside:
                        ctx.violate("descriptor:differs-after-nested-use-of-the-same-format", f"inside the nested block {nested!r}, after it {inside!r}", wit)
                else:
                    inside = dc.to_string()
            if first and rng.random() < 0.3:
                # a second block, left through an exception that is caught outside: afterwards the default patterns are back all the same
                ctx.hit("block-left-through-an-exception")
                try:
                    with DescriptorFormat(p1, p2):
                        dc.to_string()
                        raise KeyError("left the block early")
                except KeyError:
                    pass
            if first:
                # the same object rendered again after the block: the default patterns are back at every level
                after = dc.to_string()
                ctx.hit("rendered-before-inside-after-block")
                if after != before:
                    ctx.violate("descriptor:differs-after-format-block", f"before the block {before!r}, after it {after!r}", wit)
            return inside

        ok, s = ctx.guard("descriptor:to_string", {**wit, "order": o}, render)
        for v in contracts.drain():
            ctx.violate(v["mechanism"], v["message"], wit)
        if not ok:
            return
        strings.append(s)
    _last[:] = [dc]
    if rng.random() < 0.3:
        # the flattened chain rendered: one level, mother and the multiset of leaves (what flatten leaves behind in its own book-keeping is no daughter)
        ctx.hit("flattened-chain-rendered")
        okf, sf = ctx.guard("descriptor:flattened", wit, lambda: dc.flatten().to_string())
        contracts.drain()
        if okf:
            leaves, _bf = chains.ref_leaves(types, m, set())
            try:
                gotf = chains.read_descriptor(sf)
            except ValueError as e:
                gotf = ("unreadable", str(e))
            wantf = chains.ref_tree({m: [1.0, sorted(leaves.elements())]}, m)
            if gotf != wantf:
                ctx.violate("descriptor:flattened-chain", f"flatten().to_string() = {sf!r}, expected mother {m} and leaves {sorted(leaves.elements())}", {**wit, "descriptor": sf})
    if rng.random() < 0.2:
        # the same tree with its final states given as mappings name -> count, one of them carrying a name with count zero (no daughter at all)
        from decaylanguage import DecayChain, DecayMode  # noqa: PLC0415

        ctx.hit("final-states-given-as-mappings-with-a-zero-count")

        def as_mappings():
            dec = {}
            for k in names:
                c = dict(Counter(types[k][1]))
                c[rng.choice(["pi0", "gamma", "K_L0", "nu_e"]) + "_absent"] = 0
                dec[k] = DecayMode(types[k][0], c, model="PHSP")
            return DecayChain(m, dec).to_string()

        okz, sz = ctx.guard("descriptor:mappings", wit, as_mappings)
        contracts.drain()
        if okz and sz != strings[0] and pi == 0:
            ctx.violate("descriptor:zero-count-name-rendered-or-multiplicity-lost", f"{sz!r} from mappings with a zero count, {strings[0]!r} from lists", wit)
    ctx.hit("orders-compared", len(strings))
    ctx.mon("C13.direct.order_independent")
    if len(set(strings)) != 1:
        ctx.violate("descriptor:order-dependent", f"{len(set(strings))} different strings for one tree: {sorted(set(strings))[:3]}", wit)
    s = strings[0]
    ctx.mon("C13.direct.reads_back")
    try:
        got = chains.read_descriptor(s, **rd)
    except ValueError as e:
        ctx.violate("descriptor:unreadable" + ("" if pi == 0 else ":patterns"), f"{e}", {**wit, "descriptor": s})
        return
    if got != exp:
        ctx.violate("descriptor:tree-differs" + ("" if pi == 0 else ":patterns"), f"{s!r} reads back as {got!r}, expected {exp!r}", {**wit, "descriptor": s})
    # injectivity within this worker
    ctx.mon("C13.direct.injective")
    key = (pi, s)
    if key in _seen and _seen[key] != exp:
        ctx.violate("descriptor:not-injective", f"{s!r} is the descriptor of two different trees", {**wit, "other": repr(_seen[key])})
    _seen[key] = exp
    if DescriptorFormat.config != {"decay_pattern": PATTERNS[0][0], "sub_decay_pattern": PATTERNS[0][1]}:
        ctx.violate("descriptor:format-leaked", f"format after the with-block: {DescriptorFormat.config!r}", wit)
        DescriptorFormat.set_config(PATTERNS[0][0], PATTERNS[0][1])
    ctx.sample({"chain": case["chain"], "pattern": [p1, p2], "descriptor": s})


def run(ctx):
    contracts.arm("to_string")
    rng = ctx.rng
    nmax = ctx.pick(5, 6)
    pool = ["K_1(1270)+", "Upsilon(4S)", "f'_0", "anti-K*0", "D*(2007)0", "chi_c1", "D0", "a_1+", "psi(2S)", "K_2*(1430)0", "eta'", "B_c+"]
    leaves = ["pi+", "pi-", "gamma", "K_L0", "anti-nu_tau", "f_0(980)", "mu-"]
    idx = 0
    for n in range(1, nmax + 1):
        for parents in chains.increasing_trees(n):
            for mults in itertools.product((1, 2), repeat=n - 1):
                idx += 1
                if not ctx.mine(idx):
                    continue
                kids = Counter(parents)
                leafc = [(0 if kids[i] and i % 3 == 0 else 1 + (i % 2)) for i in range(n)]
                nm = pool[idx % len(pool):] + pool[: idx % len(pool)]
                ch = chains.chain_from_shape(parents, (0, *mults), leafc, nm[:n], leaves[idx % 3:], [0.5] * n)
                check_case(ctx, {"chain": ch, "pattern": idx % len(PATTERNS), "norders": 4}, "enum")
    for i in range(ctx.pick(300, 3000)):
        n = rng.choice([1, 2, 3, 4, 5, 6, 8])
        names = rng.sample(pool + ["D*+", "K_S0", "pi0", "B0", "J/psi", "Lambda_b0", "N(1440)+", "h_b(2P)"], n)
        ch = chains.random_chain(rng, n, max_mult=3, names=names, empty=0.12)
        if any(not v[1] for v in ch["types"].values()):
            ctx.hit("sub-decay-without-daughters")
        check_case(ctx, {"chain": ch, "pattern": i % len(PATTERNS), "norders": 6}, "gen")
    for depth in (10, 12, 16, 23):       # long cascades: every level of the nesting is in the string
        if ctx.mine(depth):
            ctx.hit("cascade-of-10-or-more-decays")
            check_case(ctx, {"chain": chains.ladder(rng, depth, rng.choice([0, 1])), "pattern": depth % len(PATTERNS), "norders": 3}, "gen")
    for name, k in contracts.COUNTS.items():
        if name.startswith("C13."):
            ctx.mon(name, k)


def replay(ctx, w):
    contracts.arm("to_string")
    check_case(ctx, {"chain": w["chain"], "pattern": w["pattern"], "norders": w.get("norders", 6)}, "replay")
