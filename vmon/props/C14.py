"""C14 -- descriptor format settings are scoped and validated.

History checker: sequences of {create context object, enter, leave normally, leave by exception,
set the format directly (valid / invalid pattern), enter a context built with an invalid pattern, render}
are executed on the real DescriptorFormat and compared, after *every* step, with a stack model of the
format in force.  W-enum: all well-nested histories of a reduced 9-symbol alphabet up to length L
(7 quick / 8 thorough), W-gen: random long histories over the full alphabet.  Shadow-stack contracts
(icontract on __enter__/__exit__, a wrapper on set_config) run underneath and must stay silent.
"""
from __future__ import annotations

from .. import contracts

RULE = ("one case = one history (sequence of operations); checked after every step against the stack model; non-trivial = the history "
        "contains at least one enter and one leave; distinct by the operation sequence")
ANCHORS = ["decaylanguage.utils.utilities:DescriptorFormat.__enter__", "decaylanguage.utils.utilities:DescriptorFormat.__exit__",
           "decaylanguage.utils.utilities:DescriptorFormat.set_config", "decaylanguage.utils.utilities:DescriptorFormat.format_descriptor"]
WORKERS = {"quick": 4, "thorough": 16}
WTESTS = {"groups": ['descriptor_format'], "tests": ['tests/utils', 'tests/decay']}
REQUIRED = {"rendering-abandoned-at-a-random-line:interrupted": 50, "history-run-with-warnings-as-errors": 50, "nesting-depth>=3": 50, "reused-object-sequentially": 50, "reentrant-object": 50, "object-created-before-set_config": 50,
            "leave-by-exception-at-depth>=2": 50, "enter-invalid-context": 50, "render": 500,
            "valid-pattern-with-repeated-placeholder": 20, "kept-format-handed-back": 20, "config-assigned-by-hand-keys-in-other-order": 20, "leave-by:KeyboardInterrupt": 20, "leave-by:GeneratorExit": 20, "leave-by:SystemExit": 20, "leave-by:_Custom": 20, "render:parser-descriptors": 100,
            **{f"invalid:{k}": 20 for k in ("missing-mother", "missing-daughters", "extra-named", "positional", "attribute", "index", "nested-in-spec", "second-only", "repeated-mother-no-daughters", "repeated-daughters-no-mother", "repeat-inside-spec-no-daughters", "blank-in-name", "blank-in-name-second", "tab-in-name", "empty-second", "empty-first")},
            "C14.exit.restores_entry_format": 500, "C14.set_config.rejected_leaves_format": 500}
EXHAUSTIVE_NOTE = "every well-nested history over the reduced alphabet {N,E,F,L,X,V,I,B,R} of length exactly L (7 quick, 8 thorough) -- all shorter ones are prefixes"
ASSUMPTIONS = ["only with-shaped (well-nested) enter/leave sequences, as `with` can produce", "process-wide format is reset to the default between histories"]

DEFAULT = ("{mother} -> {daughters}", "({mother} -> {daughters})")
VALID = [
    ("{mother} --> {daughters}", "[{mother} --> {daughters}]"),
    ("{mother} => {daughters}", "<{mother} => {daughters}>"),
    ("{mother!s} : {daughters:>3}", "{{{mother} : {daughters}}}"),
    ("{daughters} <- {mother}", "({daughters} <- {mother})"),
    DEFAULT,
    ("{mother} -> {daughters} [of {mother}]", "({mother} -> {daughters}; {daughters})"),   # both placeholders, one of them twice: valid
]
INVALID = {
    "missing-mother": ("X -> {daughters}", DEFAULT[1]),
    "missing-daughters": ("{mother} -> Y", DEFAULT[1]),
    "extra-named": ("{mother} -> {daughters} {extra}", DEFAULT[1]),
    "positional": ("{mother} -> {daughters} {}", DEFAULT[1]),
    "attribute": ("{mother.real} -> {daughters}", DEFAULT[1]),
    "index": ("{mother[0]} -> {daughters}", DEFAULT[1]),
    "nested-in-spec": ("{mother:{w}} -> {daughters}", DEFAULT[1]),
    "second-only": ("{mother} ~> {daughters}", "({mother} ~> {dots})"),
    # a placeholder written twice does not stand in for the missing one
    "repeated-mother-no-daughters": ("{mother} -> {mother}", DEFAULT[1]),
    "repeated-daughters-no-mother": (DEFAULT[0], "({daughters} {daughters})"),
    "repeat-inside-spec-no-daughters": ("{mother:>{mother}} x", DEFAULT[1]),
    # a blank inside the braces makes another field name (str.format would look up 'mother ')
    "blank-in-name": ("{mother } -> {daughters}", DEFAULT[1]),
    "blank-in-name-second": (DEFAULT[0], "[{mother} -> { daughters}]"),
    "tab-in-name": ("{mother} -> {daughters\t}", DEFAULT[1]),
    # the empty string lacks both placeholders
    "empty-second": (DEFAULT[0], ""),
    "empty-first": ("", DEFAULT[1]),
    # doubled braces are literal braces, not placeholders: these patterns lack one
    "escaped-mother": ("{{mother}} => {daughters}", DEFAULT[1]),
    "escaped-daughters-second": (DEFAULT[0], "({mother} -> {{daughters}})"),
    "escaped-both": ("{{mother}} -> {{daughters}}", DEFAULT[1]),
}
INV_KEYS = list(INVALID)


class _Custom(BaseException):
    pass


class Model:
    def __init__(self):
        self.cur = DEFAULT
        self.objs = []        # pattern pair of each context object
        self.saved = []       # stack of (object index, format at entry)
        self.used = set()
        self.kept = None      # format at the moment the caller kept DescriptorFormat.config

    def entered(self):
        return [i for i, _ in self.saved]


class Exec:
    """Runs one history on the real code, the model alongside."""

    def __init__(self, ctx):
        from decaylanguage import DecayChain, DecayMode  # noqa: PLC0415
        from decaylanguage.utils import DescriptorFormat  # noqa: PLC0415

        self.ctx = ctx
        self.DF = DescriptorFormat
        self.chain = DecayChain("D0", {"D0": DecayMode(0.5, "K_S0"), "K_S0": DecayMode(0.5, "pi+ pi-")})
        # a parser object kept for the whole run: its descriptors are renderings too
        from decaylanguage import DecFileParser  # noqa: PLC0415

        self.parser = DecFileParser.from_string("Decay D0\n1.0 K_S0 pi0 PHSP;\nEnddecay\nDecay K_S0\n1.0 pi+ pi- PHSP;\nEnddecay\n")
        self.parser.parse()
        self.last_hist = []

    def restore_default(self, when):
        """Between histories the process-wide format goes back to the default; a library that refuses the default
        patterns (valid by the property) has been poisoned by the history before: that is a verdict, not a harness error."""
        try:
            self.DF.set_config(*DEFAULT)
        except Exception as e:  # noqa: BLE001
            self.ctx.violate("set_config:valid-pattern-rejected:" + when, f"set_config{DEFAULT!r} raised {type(e).__name__}: {e}",
                             {"kind": "history", "ops": self.last_hist})
            self.DF.config = {"decay_pattern": DEFAULT[0], "sub_decay_pattern": DEFAULT[1]}   # the documented class-level variable

    def reset(self):
        self.restore_default("before-history")
        contracts.SHADOW.clear()
        contracts.drain()
        self.m = Model()
        self.kept = None
        self.real = []
        self.set_since_new = {}

    def fail(self, mech, msg, hist, step):
        self.ctx.violate(mech, msg, {"kind": "history", "ops": hist, "failed_at_step": step})

    def step(self, op, hist, i):
        m, DF = self.m, self.DF
        k = op[0]
        if k in ("new", "set") and op[1] == len(VALID) - 1:
            self.ctx.hit("valid-pattern-with-repeated-placeholder")
        if k == "new":
            m.objs.append(VALID[op[1]])
            self.real.append(DF(*VALID[op[1]]))
            self.set_since_new[len(m.objs) - 1] = False
        elif k == "enter":
            j = op[1]
            if j in m.entered():
                self.ctx.hit("reentrant-object")
            elif j in m.used:
                self.ctx.hit("reused-object-sequentially")
            if self.set_since_new.get(j):
                self.ctx.hit("object-created-before-set_config")
            m.saved.append((j, m.cur))
            m.cur = m.objs[j]
            m.used.add(j)
            self.real[j].__enter__()
            if len(m.saved) >= 3:
                self.ctx.hit("nesting-depth>=3")
        elif k in ("leave", "leave_exc"):
            j, fmt = m.saved.pop()
            m.cur = fmt
            if k == "leave":
                self.real[j].__exit__(None, None, None)
            else:
                if len(m.saved) >= 1:
                    self.ctx.hit("leave-by-exception-at-depth>=2")
                # any exception leaves a with-block, also the ones that do not derive from Exception
                et = (ValueError, KeyError, KeyboardInterrupt, GeneratorExit, SystemExit, _Custom)[(i + j) % 6]
                self.ctx.hit("leave-by:" + et.__name__)
                self.real[j].__exit__(et, et("boom"), None)
        elif k == "set":
            m.cur = VALID[op[1]]
            for q in self.set_since_new:
                self.set_since_new[q] = True
            DF.set_config(*VALID[op[1]])
        elif k == "set_invalid":
            self.ctx.hit("invalid:" + op[1])
            try:
                DF.set_config(*INVALID[op[1]])
            except ValueError:
                pass
            else:
                self.fail("set_config:invalid-accepted:" + op[1], f"pattern {INVALID[op[1]]!r} was accepted", hist, i)
                DF.set_config(*m.cur)
        elif k == "enter_invalid":
            self.ctx.hit("enter-invalid-context")
            try:
                with DF(*INVALID[op[1]]):
                    self.fail("enter:invalid-accepted:" + op[1], f"context with pattern {INVALID[op[1]]!r} was entered", hist, i)
            except ValueError:
                pass
        elif k == "assign":
            # the documented class variable assigned by hand -- keys in the other order: the roles of the two patterns are the keys', not the positions'
            pat = VALID[op[1]]
            DF.config = {"sub_decay_pattern": pat[1], "decay_pattern": pat[0]}
            m.cur = pat
            self.ctx.hit("config-assigned-by-hand-keys-in-other-order")
        elif k == "keep":
            # the caller keeps "the format in force" by taking the documented class variable as it is ...
            self.kept = DF.config
            m.kept = m.cur
            self.ctx.hit("format-kept-by-reference")
        elif k == "restore_kept":
            # ... and later hands it back to set_config: the format of that moment is in force again
            if getattr(self, "kept", None) is not None and m.kept is not None:
                self.ctx.hit("kept-format-handed-back")
                DF.set_config(**self.kept)
                m.cur = m.kept
        elif k == "render_abandoned":
            # a rendering (of the chain, or of the parser's descriptors) abandoned at a random line of the library's code -- Ctrl-C while a nested level is
            # being formatted: formats and later renderings are what they would have been
            from .. import trace  # noqa: PLC0415

            fp = trace.Failpoint.get()
            fn = self.chain.to_string if op[1] % 2 else (lambda: self.parser.expand_decay_modes("D0"))
            _, n = fp.count(fn)
            status, _w = fp.inject(1 + (op[1] * 7919) % max(1, n), fn)
            self.ctx.hit("rendering-abandoned-at-a-random-line:" + status)
        elif k == "render":
            self.ctx.hit("render")
            s = self.chain.to_string()
            exp = m.cur[0].format(mother="D0", daughters=m.cur[1].format(mother="K_S0", daughters="pi+ pi-"))
            if s != exp:
                self.fail("render:not-current-format", f"rendered {s!r}, format in force gives {exp!r}", hist, i)
            if i % 2 == 0:
                self.ctx.hit("render:parser-descriptors")
                got = self.parser.expand_decay_modes("D0")
                # (daughters of a descriptor are listed in the sorted order of their rendered strings, so the bracket characters decide the order)
                exp2 = [m.cur[0].format(mother="D0", daughters=" ".join(sorted([m.cur[1].format(mother="K_S0", daughters="pi+ pi-"), "pi0"])))]
                if got != exp2:
                    self.fail("render:parser-descriptors-not-in-current-format", f"expand_decay_modes gives {got!r}, format in force gives {exp2!r}", hist, i)
        got = (DF.config.get("decay_pattern"), DF.config.get("sub_decay_pattern"))
        if got != m.cur:
            self.fail("format:differs-from-stack-model:after-" + k, f"after step {i} {op}: format {got!r}, model says {m.cur!r}", hist, i)
            return False
        return True

    def run(self, hist, workload):
        self.reset()
        nontrivial = any(o[0] == "enter" for o in hist) and any(o[0].startswith("leave") for o in hist)
        self.ctx.case(hist, nontrivial, workload)
        import warnings  # noqa: PLC0415

        # a third of the random histories run the way a test-suite with `filterwarnings = error` (or `python -W error`) runs them: a warning the
        # library chooses to issue then surfaces as an exception, which is the caller's choice and not judged -- but a block that is left is left:
        # the format in force at entry is back all the same ("normally or through an exception")
        strict = workload in ("gen", "replay") and (sum(len(o) for o in hist) + len(hist)) % 3 == 0
        with warnings.catch_warnings():
            if strict:
                warnings.simplefilter("error")
                self.ctx.hit("history-run-with-warnings-as-errors")
            for i, op in enumerate(hist):
                try:
                    if not self.step(op, hist, i):
                        break
                except Warning as e:
                    if not strict:
                        self.fail("history:raised:" + type(e).__name__, f"step {i} {op} raised {type(e).__name__}: {e}", hist, i)
                        break
                    self.ctx.hit("warning-surfaced-as-an-exception:not-judged")
                    if op[0] in ("leave", "leave_exc"):
                        got = (self.DF.config.get("decay_pattern"), self.DF.config.get("sub_decay_pattern"))
                        if got != self.m.cur:
                            self.fail("format:not-restored-when-a-warning-surfaced-while-leaving", f"step {i} {op} raised {type(e).__name__}: {e}; format afterwards {got!r}, "
                                      f"format in force at entry {self.m.cur!r}", hist, i)
                    break
                except Exception as e:  # noqa: BLE001
                    self.fail("history:raised:" + type(e).__name__, f"step {i} {op} raised {type(e).__name__}: {e}", hist, i)
                    break
        for v in contracts.drain():
            self.ctx.violate(v["mechanism"], v["message"], {"kind": "history", "ops": hist})
        # unwind whatever is still entered, then restore the default
        self.last_hist = hist
        self.restore_default("after-history")


def reduced_ops(model_state):
    """Reduced alphabet for the exhaustive part, given (n_objects, entered stack, counters)."""
    nobj, entered, nset, ninv = model_state
    ops = [("new", nobj % 3)]
    if nobj:
        ops.append(("enter", nobj - 1))              # E: most recently created
        if nobj > 1 or entered:
            ops.append(("enter", entered[-1] if entered else 0))   # F: the innermost entered one again (re-entrant) / the oldest
    if entered:
        ops += [("leave",), ("leave_exc",)]
    ops.append(("set", (nset + 1) % 4))
    ops.append(("set_invalid", INV_KEYS[ninv % len(INV_KEYS)]))
    ops.append(("enter_invalid", INV_KEYS[(ninv + 3) % len(INV_KEYS)]))
    ops.append(("render",))
    # deduplicate (E and F may coincide)
    out = []
    for o in ops:
        if o not in out:
            out.append(o)
    return out


def enumerate_histories(L):
    def rec(prefix, state):
        if len(prefix) == L:
            yield list(prefix)
            return
        nobj, entered, nset, ninv = state
        for op in reduced_ops(state):
            k = op[0]
            st = state
            if k == "new":
                st = (nobj + 1, entered, nset, ninv)
            elif k == "enter":
                st = (nobj, (*entered, op[1]), nset, ninv)
            elif k in ("leave", "leave_exc"):
                st = (nobj, entered[:-1], nset, ninv)
            elif k == "set":
                st = (nobj, entered, nset + 1, ninv)
            elif k in ("set_invalid", "enter_invalid"):
                st = (nobj, entered, nset, ninv + 1)
            prefix.append(op)
            yield from rec(prefix, st)
            prefix.pop()

    yield from rec([], (0, (), 0, 0))


def random_history(rng, n):
    hist = []
    nobj = 0
    entered = []
    for _ in range(n):
        r = rng.random()
        if nobj == 0 or r < 0.12:
            hist.append(("new", rng.randrange(len(VALID))))
            nobj += 1
        elif r < 0.40:
            j = rng.choice(entered) if entered and rng.random() < 0.3 else rng.randrange(nobj)
            hist.append(("enter", j))
            entered.append(j)
        elif r < 0.62 and entered:
            entered.pop()
            hist.append(("leave",) if rng.random() < 0.6 else ("leave_exc",))
        elif r < 0.72:
            hist.append(("set", rng.randrange(len(VALID))))
        elif r < 0.82:
            hist.append(("set_invalid", rng.choice(INV_KEYS)))
        elif r < 0.88:
            hist.append(("enter_invalid", rng.choice(INV_KEYS)))
        elif r < 0.895:
            hist.append(("assign", rng.randrange(len(VALID))))
        elif r < 0.91:
            hist.append(("keep",))
        elif r < 0.94:
            hist.append(("restore_kept",))
        elif r < 0.965:
            hist.append(("render_abandoned", rng.randrange(1000)))
        else:
            hist.append(("render",))
    while entered and rng.random() < 0.8:
        entered.pop()
        hist.append(("leave",))
        hist.append(("render",))
    return hist


def run(ctx):
    contracts.arm("descriptor_format")
    ex = Exec(ctx)
    L = ctx.pick(7, 8)
    n = 0
    for i, h in enumerate(enumerate_histories(L)):
        if not ctx.mine(i):
            continue
        ex.run([list(o) for o in h], "enum")
        n += 1
        if len(ctx.violations) >= ctx.max_violations:
            break
    ctx.note("enumerated_histories_this_worker", n)
    for _ in range(ctx.pick(500, 5000)):
        ex.run([list(o) for o in random_history(ctx.rng, ctx.rng.choice([5, 10, 20, 40]))], "gen")
    ctx.sample({"history": [list(o) for o in random_history(ctx.rng, 12)], "note": "a random history as executed (operations; indices refer to VALID / created objects)"})
    for name, k in contracts.COUNTS.items():
        if name.startswith("C14."):
            ctx.mon(name, k)


def replay(ctx, w):
    contracts.arm("descriptor_format")
    Exec(ctx).run([list(o) for o in w["ops"]], "replay")
