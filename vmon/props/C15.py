"""C15 -- the chain graph has one node and one labelled edge per decay line.

The DOT source produced by the real DecayChainViewer is handed to Graphviz (`dot -Tjson`): the exit status
decides "accepted by Graphviz", and Graphviz's own reader supplies nodes, edges, tail ports and labels
independently of the `graphviz` Python package.  The oracle is a 20-line recursive reading of the chain
dictionary itself.  Chains come from generated table sets through the real parser and from
DecayChain.to_dict(); several viewers are built in sequence in one process (identifier uniqueness).
"""
from __future__ import annotations

import json
import re
import subprocess

from .. import chains, snapshot
from .. import declang as L
from . import C09

RULE = ("one case per chain dictionary rendered by a viewer; non-trivial = the chain has >= 2 decay lines; distinct by hash of the chain dictionary")
ANCHORS = ["decaylanguage.decay.viewer:DecayChainViewer._build_decay_graph", "decaylanguage.decay.viewer:DecayChainViewer.__init__",
           "decaylanguage.decay.viewer:DecayChainViewer.to_string"]
WORKERS = {"quick": 4, "thorough": 16}
REQUIRED = {"viewer-object-used-again-after-its-first-use-was-abandoned": 5, "chain-dictionary-with-shared-sub-table-objects": 10, "viewer-with-graph-node-edge-attributes": 10, "cascade-deeper-than-21-levels": 2, "line-without-daughters": 5, "branching-fraction-zero": 10, "table>=4-lines-distinct-bf": 20, "leaf-line-daughters-unsorted": 20, "repeated-decaying-daughter": 10, "empty-table-daughter": 10,
            "from-class-representation": 10, "evtgen-specific-name": 20, "alias-or-unknown-name": 20, "depth>=3": 10, "daughters>=5-in-ported-node": 5,
            "graphs-in-one-process>=3": 1, "same-lists-in-both-node-roles": 10, "two-lines-same-daughters-same-bf": 5, "dot-accepted": 50, "graph-made-in-a-worker-thread": 10, "viewer-with-name-and-format-options": 10, "line-with>10-daughters": 5, "evtgen-specific-spelling-drawn": 20, "branching-fraction-with>12-significant-digits": 20}
ASSUMPTIONS = ["Graphviz `dot` and the particle package's LaTeX->HTML name conversion are trusted", "labels contain no '<' or '&' (label alphabet)",
               "the root identifier 'mother' is per graph; uniqueness across graphs is required of the per-line nodes"]

_seen_ids: set = set()
_ngraphs = [0]


def html(n):
    from particle import latex_to_html_name  # noqa: PLC0415
    from particle.converters.bimap import DirectionalMaps  # noqa: PLC0415

    global _E2L  # noqa: PLW0603
    try:
        _E2L
    except NameError:
        _E2L, _ = DirectionalMaps("EvtGenName", "LaTexName")
    try:
        return latex_to_html_name(_E2L[n])
    except Exception:  # noqa: BLE001
        return n


def expected_of(chain):
    """canonical multiset of (label, cells, ((slot, sub...), ...)) from the chain dictionary itself"""
    (m, modes), = chain.items()

    def lines(modes):
        out = []
        for mode in modes:
            cells = tuple(html(next(iter(d)) if isinstance(d, dict) else d) for d in mode["fs"])
            subs = tuple((i, lines(next(iter(d.values())))) for i, d in enumerate(mode["fs"]) if isinstance(d, dict) and next(iter(d.values())))
            out.append((str(mode["bf"]), cells, subs))
        return tuple(sorted(out, key=repr))

    def count(modes):
        return sum(1 + sum(count(next(iter(d.values()))) for d in mode["fs"] if isinstance(d, dict)) for mode in modes)

    return m, lines(modes), count(modes)


def actual_of(g):
    nodes = {o["_gvid"]: o for o in g.get("objects", [])}
    out_edges = {}
    for e in g.get("edges", []):
        out_edges.setdefault((e["tail"], e.get("tailport")), []).append(e)
    used_edges = [0]

    def cells(o):
        # a node whose only cell is empty lists no daughters
        c = tuple(re.findall(r"<TD[^>]*>(.*?)</TD>", o.get("label", "")))
        return () if c == ("",) else c

    def rec(nid, ports):
        res = []
        for port in ports:
            for e in out_edges.get((nid, port), []):
                used_edges[0] += 1
                h = nodes[e["head"]]
                c = cells(h)
                subs = []
                for i in range(len(c)):
                    sub = rec(h["_gvid"], [f"p{i}"])
                    if sub:
                        subs.append((i, tuple(sorted(sub, key=repr))))
                res.append((e.get("label", ""), c, tuple(subs)))
        return res

    # an edge that starts from slot pK needs a cell with PORT="pK" at position K of its tail node's label (otherwise Graphviz
    # merely warns and attaches the edge to the node as a whole)
    portless = []
    for e in g.get("edges", []):
        tp = e.get("tailport")
        if tp:
            attrs = re.findall(r"<TD([^>]*)>", nodes[e["tail"]].get("label", ""))
            k = int(tp[1:]) if tp[1:].isdigit() else -1
            if not (0 <= k < len(attrs) and f'PORT="{tp}"' in attrs[k]):
                portless.append((nodes[e["tail"]]["name"], tp))
    roots = [o for o in nodes.values() if o["name"] == "mother"]
    if len(roots) != 1:
        return None
    root = roots[0]
    tree = tuple(sorted(rec(root["_gvid"], [None]), key=repr))
    return tree, cells(root), len(nodes), len(g.get("edges", [])), [o["name"] for o in nodes.values()], used_edges[0], portless


def share_equal_subtables(chain):
    """A copy of the chain dictionary in which equal sub-chains are the *same* dict object wherever they occur -> (copy, number of re-used objects)."""
    memo, reused = {}, [0]

    def walk(node):
        (m, modes), = node.items()
        key = json.dumps(node, sort_keys=True, default=repr)
        if key in memo:
            reused[0] += 1
            return memo[key]
        new = {m: [{**mode, "fs": [walk(d) if isinstance(d, dict) else d for d in mode["fs"]]} for mode in modes]}
        memo[key] = new
        return new

    return walk(chain), reused[0]


def check(ctx, chain, workload, wit_extra=None):
    from decaylanguage import DecayChainViewer  # noqa: PLC0415

    m, exp, nlines = expected_of(chain)
    wit = {"kind": "graph", "chain": chain, **(wit_extra or {})}
    ctx.case(chain, nlines >= 2, workload)
    given = chain
    if _ngraphs[0] % 3 == 2:
        # the dictionary as a caller builds it by hand or from a cache: equal sub-tables (the same decaying particle in several places) are one shared object
        given, nshared = share_equal_subtables(chain)
        if nshared:
            ctx.hit("chain-dictionary-with-shared-sub-table-objects")

    def make():
        if _ngraphs[0] % 7 == 2:
            # graph / node / edge attributes handed through to graphviz (the README's and the tests' `graph_attr={"rankdir": ...}`)
            ctx.hit("viewer-with-graph-node-edge-attributes")
            rd = ("TB", "BT", "RL", "LR")[(_ngraphs[0] // 7) % 4]
            return DecayChainViewer(given, graph_attr={"rankdir": rd}, node_attr={"fontsize": "9"}, edge_attr={"fontsize": "8"}).to_string()
        if _ngraphs[0] % 9 == 4:
            # the viewer object is kept; its first use is abandoned at a random line of the library's code (Ctrl-C), then it is used again
            from .. import trace  # noqa: PLC0415

            ctx.hit("viewer-object-used-again-after-its-first-use-was-abandoned")
            fp = trace.Failpoint.get()
            _, n = fp.count(lambda: DecayChainViewer(given).to_string())
            v = DecayChainViewer(given)
            fp.inject(ctx.rng.randint(1, max(1, n)), v.to_string)
            return v.to_string()
        if _ngraphs[0] % 5 == 1:
            # constructor options of the README (`name=`, `format=`) and graph attributes: the identifiers stay unique all the same
            ctx.hit("viewer-with-name-and-format-options")
            return DecayChainViewer(given, name=("TEST", "OtherGraph")[_ngraphs[0] % 2], format="pdf").to_string()
        if _ngraphs[0] % 4 != 3:
            return DecayChainViewer(given).to_string()
        # every fourth graph of the session is made in a worker thread (joined at once: no concurrency, only another thread of the same process)
        import threading  # noqa: PLC0415

        box = {}

        def work():
            try:
                box["src"] = DecayChainViewer(given).to_string()
            except BaseException as e:  # noqa: BLE001
                box["err"] = e

        t = threading.Thread(target=work)
        t.start()
        t.join()
        ctx.hit("graph-made-in-a-worker-thread")
        if "err" in box:
            raise box["err"]
        return box["src"]

    ok, src = ctx.guard("viewer", wit, make)
    if not ok:
        return
    _ngraphs[0] += 1
    if _ngraphs[0] >= 3:
        ctx.hit("graphs-in-one-process>=3")
    try:
        r = subprocess.run(["dot", "-Tjson"], input=src.encode(), capture_output=True, timeout=60)
    except (OSError, subprocess.TimeoutExpired) as e:
        ctx.inconclusive.append(f"dot not runnable: {e}")
        return
    ctx.mon("C15.graph_matches_chain")
    if r.returncode != 0 and b"triangulation failed" in r.stderr:
        # Graphviz' own spline router gave up on a large graph (libpath/shortest.c): that says nothing about the source text; lay it out without routing the edges (-Gsplines=none)
        ctx.hit("graphviz-spline-router-failed:retried-without-splines")
        r = subprocess.run(["dot", "-Gsplines=none", "-Tjson"], input=src.encode(), capture_output=True, timeout=60)
    if r.returncode != 0:
        ctx.violate("graph:rejected-by-graphviz", r.stderr.decode(errors="replace")[:400], {**wit, "dot": src})
        return
    ctx.hit("dot-accepted")
    act = actual_of(json.loads(r.stdout))
    if act is None:
        ctx.violate("graph:no-single-root", "no unique root node 'mother'", {**wit, "dot": src})
        return
    tree, rootcells, nn, ne, ids, used, portless = act
    w = {**wit, "dot": src}
    if portless:
        ctx.violate("graph:edge-from-undeclared-slot", f"edges start from slots that the parent node does not declare: {portless[:4]}", w)
    if r.stderr.strip():
        ctx.hit("graphviz-warnings")      # recorded, not judged: a warning is not a rejection
        ctx.note("graphviz_warning_example", r.stderr.decode(errors="replace")[:200])
    if rootcells != (html(m),):
        ctx.violate("graph:root-label", f"root cells {rootcells!r} expected {(html(m),)!r}", w)
    if nn != 1 + nlines or ne != nlines:
        ctx.violate("graph:node-or-edge-count", f"{nn} nodes / {ne} edges for {nlines} decay lines", w)
    elif used != ne:
        ctx.violate("graph:dangling-edge", f"{ne - used} edges do not start from the root or from a daughter slot of a reachable node", w)
    if tree != exp:
        mech = "graph:structure"
        flat_a = sorted((l, c) for l, c, _ in _flatten(tree))
        flat_e = sorted((l, c) for l, c, _ in _flatten(exp))
        if flat_a == flat_e:
            mech = "graph:edge-attachment"          # right nodes and labels, wrong parent/slot
        elif sorted(c for _, c in flat_a) == sorted(c for _, c in flat_e):
            mech = "graph:edge-label"
        elif sorted(tuple(sorted(c)) for _, c in flat_a) == sorted(tuple(sorted(c)) for _, c in flat_e):
            mech = "graph:daughter-order"
        ctx.violate(mech, f"graph {str(tree)[:500]} expected {str(exp)[:500]}", w)
    if len(set(ids)) != len(ids):
        ctx.violate("graph:duplicate-identifier", f"node identifiers repeat within the graph: {ids}", w)
    line_ids = set(ids) - {"mother"}
    if line_ids & _seen_ids:
        ctx.violate("graph:identifier-reused-across-graphs", f"identifiers {sorted(line_ids & _seen_ids)[:5]} already used by an earlier graph of this process", w)
    _seen_ids.update(line_ids)
    if len(ctx.samples) < 2 and 2 <= nlines <= 6:
        ctx.sample({"chain": chain, "dot": src})


def _flatten(tree):
    for l, c, subs in tree:
        yield (l, c, subs)
        for _, s in subs:
            yield from _flatten(s)


def classify(ctx, chain, al=()):
    def walk(modes, depth):
        bfs = [m["bf"] for m in modes]
        if any(b == 0 for b in bfs):
            ctx.hit("branching-fraction-zero")
        if len(modes) >= 4 and len(set(bfs)) == len(bfs):
            ctx.hit("table>=4-lines-distinct-bf")
        for mode in modes:
            names = [next(iter(d)) if isinstance(d, dict) else d for d in mode["fs"]]
            subs = [d for d in mode["fs"] if isinstance(d, dict)]
            if not names:
                ctx.hit("line-without-daughters")
            if not subs and names != sorted(names):
                ctx.hit("leaf-line-daughters-unsorted")
            if subs and len(names) >= 5:
                ctx.hit("daughters>=5-in-ported-node")
            keys = [next(iter(d)) for d in subs]
            if len(keys) != len(set(keys)):
                ctx.hit("repeated-decaying-daughter")
            if any(not next(iter(d.values())) for d in subs):
                ctx.hit("empty-table-daughter")
            for n in names:
                if html(n) != n:
                    ctx.hit("evtgen-specific-name")
                else:
                    ctx.hit("alias-or-unknown-name")
            if depth >= 3:
                ctx.hit("depth>=3")
            for d in subs:
                walk(next(iter(d.values())), depth + 1)

    walk(next(iter(chain.values())), 1)


def run(ctx):
    r = ctx.rng
    for i in range(ctx.pick(35, 400)):
        stmts, T, parts, exp = C09.gen_tables(ctx, max_paths=10**9, max_size=150)
        if i % 3 == 0:      # branching fractions that are exactly zero (about 300 lines of DECAY_LHCB.DEC are 0.0000)
            for st in stmts:
                if st["k"] == "Decay":
                    for ln in st["lines"]:
                        if r.random() < 0.3:
                            ln["bf"] = r.choice(["0", "0.0000", "0.0"])
        if i % 5 == 2:      # branching fractions with more digits than any shipped file has (results of arithmetic, e.g. 1 - sum of the others)
            for st in stmts:
                if st["k"] == "Decay":
                    for ln in st["lines"]:
                        if r.random() < 0.5:
                            ln["bf"] = r.choice(["0.3333333333333333", "0.30000000000000004", "0.6070566666665668", "0.0596100000001", "1e-15", "0.123456789012345",
                                                 "0.1234567890123", "2.2250738585072014e-308", "0.99999999999999"])
                            ctx.hit("branching-fraction-with>12-significant-digits")
        if i % 3 == 1:
            # names whose EvtGen spelling differs most from what is drawn: anti-diquarks, excited and primed states
            for st in stmts:
                if st["k"] == "Decay":
                    for ln in st["lines"]:
                        if r.random() < 0.25:
                            nm = r.choice(["anti-cs_0", "anti-ud_1", "anti-su_0", "cs_0", "ud_1", "anti-uu_1", "anti-bd_1", "eta'", "anti-K*0", "K'_10", "anti-Lambda_c-"])
                            if nm not in T and nm not in parts:      # a plain leaf: no table of its own (the table set stays acyclic)
                                ln["fs"].append(nm)
                                ctx.hit("evtgen-specific-spelling-drawn")
        if i % 6 == 3:
            # very long final states (11 .. 25 daughters in one line, more than any shipped line has)
            for st in stmts:
                if st["k"] == "Decay" and st["lines"] and r.random() < 0.5:
                    ln = r.choice(st["lines"])
                    leafs = [x for x in ["gamma", "pi0", "pi+", "pi-", "K+", "e-", "nu_e", "Xlong1", "Xlong2"] if x not in T and x not in parts]    # plain leaves only: the set stays acyclic
                    ln["fs"] = ln["fs"] + [r.choice(leafs) for _ in range(r.randint(11, 25))]
                    ctx.hit("line-with>10-daughters")
        if i % 4 == 1:
            for st in stmts:
                if st["k"] == "Decay" and st["lines"] and r.random() < 0.5:
                    twin = dict(r.choice(st["lines"]))
                    twin["model"], twin["params"] = "PHSP", []
                    st["lines"].insert(r.randrange(len(st["lines"]) + 1), twin)     # same daughters, same bf, another model: still its own line
                    ctx.hit("two-lines-same-daughters-same-bf")
        text = L.render(stmts)
        ok, res = ctx.guard("parse", {"kind": "graph", "text": text}, snapshot.make_parser, text)
        if not ok:
            continue
        # the additions above are meant to keep the table set acyclic; that is re-checked on the statements as they now stand (a name added to a line may be
        # a table made by CDecay / CopyDecay): a mother that reaches itself is outside what every property covers and is not drawn
        try:
            exp_now = L.expected(stmts)
            T_now = {mm: [{"fs": list(ln["fs"])} for ln in lines] for mm, lines in {**exp_now["tables"], **exp_now["derived"]}.items()}
        except Exception:  # noqa: BLE001
            T_now = None
        from .. import contracts as _CT  # noqa: PLC0415

        for m in parts[:2]:
            if T_now is None or m not in T_now or not _CT._reach_acyclic(T_now, m):
                ctx.hit("generated-table-set-not-acyclic-after-additions:skipped")
                continue
            direct = sorted({d for ln in T[m] for d in ln["fs"] if d in T})
            # the same daughter lists once as nodes with decaying daughters and once (everything below kept stable) as plain final states
            # ... in both orders: final-state role first (then again as node with sub-decays), and the other way round
            for S in (([], direct, r.sample(parts, 1)) if (i + parts.index(m)) % 2 else (direct, [], r.sample(parts, 1), direct)):
                if S == direct and direct:
                    ctx.hit("same-lists-in-both-node-roles")
                real_chain = res[0].build_decay_chains(m, stable_particles=S)
                classify(ctx, real_chain)
                check(ctx, real_chain, "gen-parser", {"text": text, "mother": m, "stable": S})
    from decaylanguage import DecayChain, DecayMode  # noqa: PLC0415

    for i in range(ctx.pick(15, 150)):
        n = r.choice([1, 2, 3, 4, 6])
        ch = chains.random_chain(r, n, max_mult=2, empty=0.12)
        # branching fractions as int (0, 1) and float; modes with and without user metadata next to the model information
        dc = DecayChain(ch["mother"], {k: DecayMode(((i + j) % 8 // 4) if (i + j) % 4 == 0 else (v[0] / 3 + 0.1 + 0.2 if (i + j) % 4 == 1 else v[0]), v[1], model="PHSP",
                                                    **({"study": "toy", "year": 2019} if (i + j) % 3 == 0 else {}))
                                       for j, (k, v) in enumerate(ch["types"].items())})
        d = dc.to_dict()
        ctx.hit("from-class-representation")
        classify(ctx, d)
        check(ctx, d, "gen-class")


    for depth in (22, 26, 33):       # long cascades: one node and one edge per level, however deep
        if ctx.mine(depth):
            ch = chains.ladder(r, depth, 1)
            d = DecayChain(ch["mother"], {k: DecayMode(v[0], v[1], model="PHSP") for k, v in ch["types"].items()}).to_dict()
            ctx.hit("cascade-deeper-than-21-levels")
            check(ctx, d, "gen-class")


def replay(ctx, w):
    check(ctx, w["chain"], "replay")
