"""C16 -- printed decay-mode tables show every mode once, correctly ordered and scaled.

W-gen: tables with 1..12 lines, exact ties, branching fractions log-uniform over 1e-12..1 written with
8-9 significant digits (so that the displayed precision matters), every combination of print_model /
display_photos_keyword / ascending / normalize / scale in and outside (0,1], mother by PDG name.
Oracle: the captured stdout is read row by row (white-space split: names contain none) and compared
with the abstract table: row order (stable sort in the requested direction), daughters / model / PHOTOS /
parameters per row, the value column within 7-significant-digit rounding of bf*k with one common k.
"""
from __future__ import annotations

import contextlib
import io
import itertools
import math

from .. import decgen, names, snapshot
from .. import declang as L

SCALES = [None, 1, 0.5, 1e-3, 0.37, 0, -0.1, 1.5, float("nan"), float("inf")]
RULE = ("one case per (generated table, option combination); non-trivial = table has >= 2 lines with different branching fractions; distinct by hash of (text, options)")
ANCHORS = ["decaylanguage.dec.dec:DecFileParser.print_decay_modes", "decaylanguage.dec.dec:DecFileParser._decay_mode_details"]
WORKERS = {"quick": 4, "thorough": 16}
REQUIRED = {"printed-again-after:abandoned": 20, "printed-again-after:stream-fails": 20, "ascending": 50, "ascending+scale": 20, "descending+scale": 20, "normalize": 50, "ties": 30, "lines>=5": 50, "lines>=8": 20, "refused:normalize+scale": 10,
            "refused:scale-out-of-range": 20, "refused:scale-nan": 5, "all-values-below-1e-9": 10, "near-tie-beyond-7-digits": 20, "reparsed-off-and-on-between-prints": 20, "first-parsed-without-conjugates-then-with": 10, "pdg-name-mother": 10, "print_model=False": 50, "photos-keyword-hidden": 30, "photos-keyword-shown": 30,
            "option-combinations-all": 1, "conjugated-table-printed": 20, "defined-parameter-in-row": 20, "same-table-other-define-value": 10, "span>=1e6": 20, "stored-values-unchanged": 200}
EXHAUSTIVE_NOTE = "all 2x2x2x(normalize|8 scales) option combinations are used on every 8th table (quick) / every table (thorough)"
ASSUMPTIONS = ["values are positive (1e-12..1); 7-significant-digit rounding allows a relative error of 6e-7 per value",
               "names contain no white space, so rows can be read back by splitting"]

_combos: set = set()


def gen_table(ctx):
    r = ctx.rng
    g = decgen.Gen(r)
    n = r.choice([1, 2, 3, 4, 5, 5, 8, 12])
    base = [10 ** r.uniform(-12, 0) for _ in range(n)]
    if r.random() < 0.15:
        base = [10 ** r.uniform(-12, -9.5) for _ in range(n)]     # a table of rare modes only: every value (and their sum) far below 1e-9
        ctx.hit("all-values-below-1e-9")
    lines = []
    lits = []
    for i in range(n):
        if i and r.random() < 0.3:
            lit = lits[r.randrange(i)]       # exact tie: the same literal
        elif i and r.random() < 0.15:
            # a near-tie: two different values that print alike to 7 significant digits (in either file order)
            lit = repr(float(lits[r.randrange(i)]) * (1 + r.choice([3e-8, -3e-8, 1e-9])))
            ctx.hit("near-tie-beyond-7-digits")
        else:
            lit = r.choice([repr(base[i]), "%.8g" % base[i], "%.8e" % base[i], "%.8E" % base[i], ("%.3E" % base[i]).replace("E-0", "E-")])
        lits.append(lit)
        fs = [g.name() for _ in range(r.randint(0, 4))]
        mod = r.choice([("PHSP", []), ("VSS", []), ("HELAMP", ["1.0", "0.5", "x"]), ("SVS", []), ("VSS_BMIX", ["0.507e12"]), ("BTOXSGAMMA", ["2"]),
                        ("SVV_HELAMP", ["0.317", "0.0", "0.936", "0", "0.152", "-0.0"]), ("PYTHIA", ["0"])])
        lines.append({"bf": lit, "fs": fs, "photos": r.random() < 0.35, "model": mod[0], "params": list(mod[1])})
    pdg = None
    extra = {}
    if r.random() < 0.4:
        # a Define'd parameter in some lines, and the table printed again for the conjugate mother created by CDecay
        pairs = [(a, b) for a, b in names.antiparticle_pairs() if a in g.real and b in g.real]
        mother, cm = r.choice(pairs)
        for ln in lines:
            if r.random() < 0.5:
                ln["params"] = [*ln["params"], "dm"]
        return {"mother": mother, "pdg_name": None, "lines": lines, "define": r.choice(["0.507e12", "0.25", "-1.5", "3", "0.0", "0"]), "cdecay": cm}
    if r.random() < 0.25:
        t = names.tables()
        cands = [(pn, en) for pn, en in t["pdg2evt"].items() if en in g.real and pn != en]
        pdg, mother = r.choice(cands)
    else:
        mother = g.name()
    return {"mother": mother, "pdg_name": pdg, "lines": lines}


def option_sets(full):
    out = []
    for pm, ph, asc in itertools.product([True, False], repeat=3):
        for extra in ([{}, {"normalize": True}] + [{"scale": s} for s in SCALES[1:]] + [{"normalize": True, "scale": 0.5}]):
            out.append({"print_model": pm, "display_photos_keyword": ph, "ascending": asc, **extra})
    return out


ALL_OPTS = option_sets(True)


def statements(tab):
    st = []
    if tab.get("define"):
        st.append({"k": "Define", "name": "dm", "value": tab["define"]})
    st.append({"k": "Decay", "m": tab["mother"], "lines": tab["lines"]})
    if tab.get("cdecay"):
        st.append({"k": "CDecay", "name": tab["cdecay"]})
    return st


class _FailingStream(io.StringIO):
    """A user's output stream that breaks after a few writes (a closed pipe, a full disk)."""

    def __init__(self, ok_writes):
        super().__init__()
        self.left = ok_writes

    def write(self, s):
        if self.left <= 0:
            raise OSError("broken pipe (harness: the stream the user supplied failed)")
        self.left -= 1
        return super().write(s)


def _swallow(fn):
    try:
        return fn()
    except RuntimeError:
        return None


def check(ctx, tab, opts, p=None, workload="gen", which=None):
    from decaylanguage import DecFileParser  # noqa: PLC0415

    stmts = statements(tab)
    exp = L.expected(stmts)
    which = which or tab["mother"]
    lines = (exp["tables"].get(which) or exp["derived"].get(which))
    text = L.render(stmts)
    wit = {"kind": "print", "table": tab, "options": opts, "printed_mother": which}
    bfs = [ln["bf"] for ln in lines]
    if which != tab["mother"]:
        ctx.hit("conjugated-table-printed")
    if tab.get("define") and any("dm" in x["params"] for x in tab["lines"]):
        ctx.hit("defined-parameter-in-row")
    ctx.case({"text": text, "opts": opts, "pdg": tab["pdg_name"]}, len(set(bfs)) >= 2, workload)
    _combos.add(repr(sorted(opts.items())))
    if p is None:
        ok, res = ctx.guard("parse", wit, snapshot.make_parser, text)
        if not ok:
            return None
        p = res[0]
    kw = dict(opts)
    mother = which
    if tab["pdg_name"]:
        kw["pdg_name"] = True
        mother = tab["pdg_name"]
        ctx.hit("pdg-name-mother")
    before = snapshot.tables(p)
    if ctx.rng.random() < 0.12:
        # earlier on the same object: the same print abandoned half-way -- the user's output stream failed on a write, or the call was interrupted at a
        # random line of the library's code -- and possibly a refused option combination.  What is printed next is the whole table, as asked for.
        how = ctx.rng.choice(["stream-fails", "abandoned", "refused"])
        ctx.hit("printed-again-after:" + how)
        wit["earlier_on_the_same_object"] = how
        base_kw = {k_: v_ for k_, v_ in kw.items() if k_ not in ("normalize", "scale")}
        kw_first = ctx.rng.choice([kw, {**base_kw, "normalize": True}, {**base_kw, "scale": 0.25}, base_kw])     # (not necessarily the options of the print that follows)
        wit["earlier_options"] = {k_: v_ for k_, v_ in kw_first.items()}
        try:
            if how == "stream-fails":
                with contextlib.redirect_stdout(_FailingStream(ctx.rng.randint(0, 6))):
                    p.print_decay_modes(mother, **kw_first)
            elif how == "abandoned":
                from .. import trace  # noqa: PLC0415

                fp = trace.Failpoint.get()

                def quiet():
                    with contextlib.redirect_stdout(io.StringIO()):
                        p.print_decay_modes(mother, **kw_first)

                _, n = fp.count(lambda: _swallow(quiet))
                fp.inject(ctx.rng.randint(1, max(1, n)), lambda: _swallow(quiet))
            else:
                with contextlib.redirect_stdout(io.StringIO()):
                    p.print_decay_modes(mother, **{**kw, "normalize": True, "scale": 0.5})
        except Exception:  # noqa: BLE001, S110   what the earlier call raised is not what is judged here
            pass
    buf = io.StringIO()
    raised = None
    try:
        with contextlib.redirect_stdout(buf):
            p.print_decay_modes(mother, **kw)
    except RuntimeError as e:
        raised = e
    except Exception as e:  # noqa: BLE001
        ctx.violate("print:raised:" + type(e).__name__, f"{type(e).__name__}: {e}", wit)
        return p
    out = buf.getvalue()
    scale = opts.get("scale")
    must_refuse = (scale is not None and opts.get("normalize")) or (scale is not None and not (0.0 < scale <= 1.0))
    ctx.mon("C16.rows_match_table")
    if must_refuse:
        ctx.hit("refused:normalize+scale" if (scale is not None and opts.get("normalize")) else "refused:scale-out-of-range")
        if scale is not None and scale != scale:
            ctx.hit("refused:scale-nan")
        if raised is None:
            ctx.violate("print:contradictory-options-accepted", f"options {opts} were accepted; output {out[:200]!r}", wit)
        elif out.strip():
            ctx.violate("print:refused-but-printed", f"refused with {raised!r} but printed {out[:200]!r}", wit)
    elif raised is not None:
        ctx.violate("print:valid-options-refused", f"options {opts} refused: {raised}", wit)
    else:
        judge(ctx, {**tab, "mother": which, "lines": lines}, opts, out, bfs, wit)
    after = snapshot.tables(p)
    ctx.hit("stored-values-unchanged")
    if L.typed(before) != L.typed(after):
        ctx.violate("print:stored-values-changed", f"tables before {before!r} after {after!r}", wit)
    _ = DecFileParser
    return p


def judge(ctx, tab, opts, out, bfs, wit):
    lines = tab["lines"]
    n = len(lines)
    asc = opts["ascending"]
    rows = [ln for ln in out.splitlines() if ln.strip()]
    if asc:
        ctx.hit("ascending")
    if n >= 5:
        ctx.hit("lines>=5")
    if n >= 8:
        ctx.hit("lines>=8")
    if len(set(bfs)) < n:
        ctx.hit("ties")
    if max(bfs) / min(bfs) >= 1e6:
        ctx.hit("span>=1e6")
    if not opts["print_model"]:
        ctx.hit("print_model=False")
    if any(ln["photos"] for ln in lines) and opts["print_model"]:
        ctx.hit("photos-keyword-shown" if opts["display_photos_keyword"] else "photos-keyword-hidden")
    if len(rows) != n:
        ctx.violate("print:row-count", f"{len(rows)} rows for {n} lines", wit)
        return
    order = sorted(range(n), key=(lambda i: bfs[i]) if asc else (lambda i: -bfs[i]))   # stable: file order among equal values
    k = 1.0
    if opts.get("normalize"):
        ctx.hit("normalize")
        k = 1.0 / math.fsum(bfs)
    elif opts.get("scale") is not None:
        ctx.hit("ascending+scale" if asc else "descending+scale")
        k = opts["scale"] / max(bfs)
    shown = []
    for row, i in zip(rows, order):
        if not row.rstrip().endswith(";"):
            ctx.violate("print:row-format", f"row {row!r} does not end with ';'", wit)
            return
        toks = row.rstrip()[:-1].split()
        ln = lines[i]
        try:
            val = float(toks[0])
        except (ValueError, IndexError):
            ctx.violate("print:row-format", f"row {row!r} has no leading value", wit)
            return
        shown.append(val)
        exp_val = bfs[i] * k
        expect = list(ln["fs"])
        if opts["print_model"]:
            expect += (["PHOTOS"] if (ln["photos"] and opts["display_photos_keyword"]) else []) + [ln["model"]] + [str(x) for x in ln["params"]]
        if toks[1:] != expect:
            # a wrong row order shows up here first when the rows differ in content
            same_multiset = sorted(tuple(r.rstrip()[:-1].split()[1:]) for r in rows) == sorted(
                tuple(list(x["fs"]) + ((["PHOTOS"] if (x["photos"] and opts["display_photos_keyword"]) else []) + [x["model"]]
                      + [str(y) for y in x["params"]] if opts["print_model"] else [])) for x in lines)
            ctx.violate("print:row-order" if same_multiset else "print:row-content", f"row {row!r}: expected columns {expect!r} (value {exp_val:.7g})", wit)
            return
        if not math.isclose(val, exp_val, rel_tol=6e-7, abs_tol=0.0):
            mech = "print:value" + (":normalize" if opts.get("normalize") else (":scale" if opts.get("scale") is not None else ":default"))
            ctx.violate(mech, f"row {row!r}: shown {val!r}, expected {exp_val:.9g} (k={k!r})", wit)
            return
        digits = toks[0].lower().split("e")[0].replace("-", "").replace(".", "").lstrip("0")
        if len(digits) > 7:
            ctx.violate("print:more-than-7-digits", f"value {toks[0]!r}", wit)
            return
    want_sorted = sorted(shown, reverse=not asc)
    if shown != want_sorted and len(set(bfs)) == n:
        ctx.violate("print:row-order", f"values {shown} not in {'ascending' if asc else 'descending'} order", wit)
    if opts.get("normalize") and not math.isclose(math.fsum(shown), 1.0, rel_tol=0, abs_tol=n * 6e-7):
        ctx.violate("print:value:normalize-sum", f"normalised values sum to {math.fsum(shown)!r}", wit)
    if opts.get("scale") is not None and not math.isclose(max(shown), opts["scale"], rel_tol=6e-7):
        ctx.violate("print:value:scale-largest", f"largest shown value {max(shown)!r} != scale {opts['scale']!r}", wit)
    if len(ctx.samples) < 3 and n >= 3:
        ctx.sample({"options": opts, "mother": tab["mother"], "lines": [[ln["bf"], ln["fs"], ln["model"], [str(x) for x in ln["params"]]] for ln in lines], "printed": out})


def run(ctx):
    r = ctx.rng
    for i in range(ctx.pick(160, 1500)):
        tab = gen_table(ctx)
        full = (not ctx.quick) or i % 8 == 0
        opts_list = ALL_OPTS if full else r.sample(ALL_OPTS, 6)
        p = None
        reparse_at = r.choice([1, 2]) if r.random() < 0.4 else None
        if tab.get("cdecay") and r.random() < 0.4:
            # first parsed without the conjugated tables and looked at, then parsed again with them: everything below runs on that object
            import warnings  # noqa: PLC0415

            ctx.hit("first-parsed-without-conjugates-then-with")
            w0 = {"kind": "print", "table": tab, "options": {}, "history": "parse(include_ccdecays=False); queries; parse()"}
            ok0, res0 = ctx.guard("parse", w0, snapshot.make_parser, L.render(statements(tab)), None, (), False)
            if ok0:
                p = res0[0]
                try:
                    with warnings.catch_warnings():
                        warnings.simplefilter("ignore")
                        for mm in p.list_decay_mother_names():
                            p.list_decay_modes(mm)
                        p.parse()
                except Exception as e:  # noqa: BLE001
                    ctx.violate("print:reparse-raised:" + type(e).__name__, str(e), w0)
                    p = None
        for j, o in enumerate(opts_list):
            p = check(ctx, tab, o, p)
            if p is None:
                break
            if j == reparse_at:
                # the same object parsed again with the other value of the switch and back, tables looked at in between
                import warnings  # noqa: PLC0415

                ctx.hit("reparsed-off-and-on-between-prints")
                try:
                    with warnings.catch_warnings():
                        warnings.simplefilter("ignore")
                        p.parse(include_ccdecays=False)
                        for mm in p.list_decay_mother_names():
                            p.list_decay_modes(mm)
                        p.parse()
                except Exception as e:  # noqa: BLE001
                    ctx.violate("print:reparse-raised:" + type(e).__name__, str(e), {"kind": "print", "table": tab, "options": o})
                    break
            if tab.get("cdecay") and j % 2 == 0:
                check(ctx, tab, o, p, which=tab["cdecay"])      # the conjugate mother's table, same instance, right after
        if tab.get("define"):
            # the same text with another value of the Define'd name, in a new instance of the same interpreter
            tab2 = {**tab, "define": "7.5"}
            ctx.hit("same-table-other-define-value")
            for o in opts_list[:2]:
                q = check(ctx, tab2, o, None)
                if q is not None and tab2.get("cdecay"):
                    check(ctx, tab2, o, q, which=tab2["cdecay"])
        if len(ctx.violations) >= ctx.max_violations:
            return
    ctx.note("option_combinations_seen", sorted(_combos))


def finish(merged):
    seen = merged["notes"].get("option_combinations_seen", [])
    if len(set(seen)) >= min(200, len(ALL_OPTS)) or len(set(seen)) >= len(ALL_OPTS):
        merged["classes"]["option-combinations-all"] = 1
    merged["notes"]["option_combinations_seen"] = f"{len(set(seen))} of {len(ALL_OPTS)} (list capped at 200 in the merge)"


def replay(ctx, w):
    check(ctx, w["table"], w["options"], None, "replay")
