"""C17 -- AmpGen option files are read into the amplitudes and tables they state.

W-gen: option texts rendered from an abstract model (event type, full and partial decay lines nested to
depth 3, 0..3 alternative sub-lines per resonance name, spin / lineshape tags, comments, blank lines,
indentation, CRLF, parameter and constant lines, the coherent-sum option 0 / 1 / absent).  Oracle: the
abstract model (cartesian expansion by name, golden PDG IDs for the names, polar -> complex by
cmath.rect).  W-corpus: the shipped model and the text of the repository's goofit test, un-memoised.
"""
from __future__ import annotations

import cmath
import os
from collections import Counter

from .. import ampgen as A
from .. import core

RULE = ("one case per generated option text; non-trivial = at least one resonance name is expanded into >= 2 alternatives (or the text has parameter "
        "rows); distinct by hash of the text")
ANCHORS = ["decaylanguage.modeling.amplitudechain:AmplitudeChain.read_ampgen", "decaylanguage.modeling.amplitudechain:AmplitudeChain.from_matched_line",
           "decaylanguage.modeling.amplitudechain:AmplitudeChain.expand_lines", "decaylanguage.modeling.ampgentransform:AmpGenTransformer.cplx_decay_line",
           "decaylanguage.modeling.ampgentransform:AmpGenTransformer.decay", "decaylanguage.modeling.ampgentransform:AmpGenTransformer.variable",
           "decaylanguage.modeling.ampgentransform:AmpGenTransformer.constant", "decaylanguage.utils.particleutils:particle_from_string_name"]
WORKERS = {"quick": 4, "thorough": 16}
WATCHDOG = {"quick": 900, "thorough": 3300}
REQUIRED = {"read-after-an-abandoned-read:interrupted": 2, "read-through:base": 10, "read-through:goofit": 10, "read-through:goofitpy": 10, "read-through:user-reader-derived-from-the-base": 10, "read-through:user-reader-derived-from-a-converter": 10, "same-lines-read-again-under-the-other-cartesian-setting": 10, "expansion>=2x2": 10, "nesting-depth-3": 20, "resonance-without-alternatives": 20, "resonance-with>=2-alternatives": 20, "resonance-with-3-alternatives": 5,
            "tag:[S]": 10, "tag:[P]": 10, "tag:[D]": 10, "tag:[ls]": 10, "tag:[spin;ls]": 10, "cartesian:absent": 10, "cartesian:0": 10, "cartesian:1": 10,
            "parameter-rows": 20, "constant-rows": 20, "crlf": 5, "comments": 20, "eventtype-not-first": 5, "amplitudes>=8": 5, "unmemoised-read": 1, "flag-as-float-or-signed-literal": 10, "constant-name-repeated": 5, "ignored-line-kinds": 5,
            "shipped-model-or-test-text": 1, "read-after-a-failed-cartesian-read": 10, "conjugate-event-type": 20, "bare-use-in-another-spelling-of-the-particle": 5, "same-named-siblings-written-differently": 3, "same-complete-line-written-twice": 5, "coupling-very-small-or-phase-next-to-0-or-pi": 20, "free-flag-written-as-0.0-or-+0": 10}
ASSUMPTIONS = ["PDG IDs of the 29 AmpGen-style names of the golden pool are fixed in vmon/ampgen.py", "amplitude fixedness (line.fix) is not compared with the input flags (DESIGN 5.8)",
               "the order of amplitudes inside the expansion of one written line is not compared (multiset); groups follow file order",
               "name lookups are memoised per (name, particle-table size) after their first real execution in the process"]


def classify(ctx, model, exp):
    subs = A.order_of_subs(model)

    def depth(n):
        return 0 if n.kids is None else 1 + max(depth(k) for k in n.kids)

    def walk(n):
        if getattr(n, "alt_spelling", False):
            ctx.hit("bare-use-in-another-spelling-of-the-particle")
        if n.kids is None:
            if n.name in A.RES2 or n.name in A.RES3:
                k = len(subs.get(n.name, []))
                ctx.hit("resonance-without-alternatives" if k == 0 else ("resonance-with>=2-alternatives" if k >= 2 else "resonance-with-1-alternative"))
                if k >= 3:
                    ctx.hit("resonance-with-3-alternatives")
            return
        if n.spin and n.ls:
            ctx.hit("tag:[spin;ls]")
        elif n.spin:
            ctx.hit(f"tag:[{n.spin}]")
        elif n.ls:
            ctx.hit("tag:[ls]")
        for k in n.kids:
            walk(k)

    for ln in model["lines"]:
        walk(ln["node"])
        ks = ln["node"].kids or []
        if len(ks) == 2 and ks[0].name == ks[1].name and (ks[0].tag() != ks[1].tag() or (ks[0].kids is None) != (ks[1].kids is None)):
            ctx.hit("same-named-siblings-written-differently")
        if ln["kind"] == "top" and depth(ln["node"]) >= 3:
            ctx.hit("nesting-depth-3")
    ctx.hit("cartesian:" + ("absent" if model["cartesian"] is None else str(model["cartesian"])))
    if model["params"]:
        ctx.hit("parameter-rows")
    if any(isinstance(ln["nums"][0], str) or isinstance(ln["nums"][3], str) for ln in model["lines"]) or any(isinstance(p[1], str) for p in model["params"]):
        ctx.hit("flag-as-float-or-signed-literal")
    if any("=" in x or x.startswith("D0{K-,pi+}") for x in model["extras"]):
        ctx.hit("ignored-line-kinds")
    if any(isinstance(ln["nums"][1], str) or isinstance(ln["nums"][4], str) for ln in model["lines"] if ln["kind"] == "top"):
        ctx.hit("coupling-very-small-or-phase-next-to-0-or-pi")
    if any(str(p[1]) in ("0.", "+0", "00", "0.0") for p in model["params"]):
        ctx.hit("free-flag-written-as-0.0-or-+0")
    if any(ln.get("twice") for ln in model["lines"]):
        ctx.hit("same-complete-line-written-twice")
    if model["consts"]:
        ctx.hit("constant-rows")
    if len({c[0] for c in model["consts"]}) < len(model["consts"]):
        ctx.hit("constant-name-repeated")
    nontrivial = False
    for g in exp["groups"]:
        if len(g["strs"]) >= 4:
            ctx.hit("expansion>=2x2")
        if len(g["strs"]) >= 2:
            nontrivial = True
    if sum(len(g["strs"]) for g in exp["groups"]) >= 8:
        ctx.hit("amplitudes>=8")
    return nontrivial or bool(model["params"])


VIAS = ["base", "base", "goofit", "goofitpy", "user-reader-derived-from-the-base", "user-reader-derived-from-a-converter"]
_user_readers: dict = {}


def read(text, via="base"):
    """The text read through one of the reader classes (the base reader, the two converters, or a user's class derived from one of them -- "can be
    subclassed to provide custom converters"); converters hand back (lines, event type) and keep the two tables as class attributes."""
    from decaylanguage.modeling.amplitudechain import AmplitudeChain  # noqa: PLC0415
    from decaylanguage.modeling.goofit import GooFitChain, GooFitPyChain  # noqa: PLC0415

    if not _user_readers:
        class MyReader(AmplitudeChain):
            __slots__ = ()

        class MyConverter(GooFitChain):
            __slots__ = ()

        _user_readers.update({"user-reader-derived-from-the-base": MyReader, "user-reader-derived-from-a-converter": MyConverter})
    cls = {"base": AmplitudeChain, "goofit": GooFitChain, "goofitpy": GooFitPyChain, **_user_readers}[via]
    res = cls.read_ampgen(text=text)
    if len(res) == 2:
        lines, states = res
        return lines, cls.pars, cls.consts, states
    return res


def compare(ctx, res, exp, wit):
    lines, pars, consts, states = res
    ctx.mon("C17.read_matches_model")
    if [str(s) for s in states] != exp["states"]:
        ctx.violate("read:event-type", f"states {[str(s) for s in states]} expected {exp['states']}", wit)
    got_p = [(str(i), bool(r.fix), float(r.value), float(r.error)) for i, r in pars.iterrows()]
    if got_p != exp["params"] or [type(r.fix).__name__ for _, r in pars.iterrows() if not isinstance(r.fix, (bool,)) and type(r.fix).__name__ not in ("bool", "bool_")]:
        ctx.violate("read:parameter-table", f"parameter rows {got_p} expected {exp['params']}", wit)
    got_c = [(str(i), float(r.value)) for i, r in consts.iterrows()]
    if got_c != exp["consts"]:
        ctx.violate("read:constants-table", f"constant rows {got_c} expected {exp['consts']}", wit)
    got = [(str(ln), ln.amp, ln.spinfactor, ln.lineshape) for ln in lines]
    pos = 0
    for gi, g in enumerate(exp["groups"]):
        chunk = got[pos: pos + len(g["strs"])]
        pos += len(g["strs"])
        if Counter(s for s, *_ in chunk) != Counter(g["strs"]):
            mech = "read:expansion"
            if len(chunk) == len(g["strs"]) and Counter(_strip_tags(s) for s, *_ in chunk) == Counter(_strip_tags(s) for s in g["strs"]):
                mech = "read:tags"
            ctx.violate(mech, f"amplitudes of written line #{gi}: {[s for s, *_ in chunk]} expected {g['strs']}", wit)
            return
        for s, amp, sp, ls in chunk:
            if not cmath.isclose(amp, g["amp"], rel_tol=1e-12, abs_tol=1e-15):
                ctx.violate("read:coupling", f"{s}: coupling {amp!r} expected {g['amp']!r}", wit)
                return
            if (sp, ls) != (g["spin"], g["ls"]):
                ctx.violate("read:tags", f"{s}: spin/lineshape attributes {(sp, ls)} expected {(g['spin'], g['ls'])}", wit)
                return
    if pos != len(got):
        ctx.violate("read:expansion", f"{len(got)} amplitudes, expected {pos}: extra {[s for s, *_ in got[pos:]][:3]}", wit)


def _strip_tags(s):
    import re  # noqa: PLC0415

    return re.sub(r"\[[^\]]*\]", "", s)


_nread = [0]
_last_via = ["base"]


def check(ctx, model, seed_style, workload="gen", memo=True, poison=None, via=None):
    import random  # noqa: PLC0415

    text = A.render(model, random.Random(seed_style))
    wit = {"kind": "options", "model": A.model_to_json(model), "style_seed": seed_style, "text": text}
    exp = A.expected(model)
    nontrivial = classify(ctx, model, exp)
    ctx.case(text, nontrivial, workload)
    if "\r\n" in text:
        ctx.hit("crlf")
    if "#" in text:
        ctx.hit("comments")
    if not text.lstrip().startswith(("EventType", "#")):
        ctx.hit("eventtype-not-first")
    if not memo:
        A.uninstall_memo()
        ctx.hit("unmemoised-read")
    if (ctx.rng.random() < 0.15) if poison is None else poison:
        # history: a read that fails half-way (cartesian option on, unknown resonance further down) comes first in this interpreter
        ctx.hit("read-after-a-failed-cartesian-read")
        bad_text = A.POISON_TEXTS[_nread[0] % 2]      # refused after parsing (unknown resonance) / by the options grammar itself (missing brace)
        wit["preceded_by_failed_read_of"] = bad_text
        try:
            read(bad_text, VIAS[(_nread[0] // 2) % len(VIAS)])
        except Exception:  # noqa: BLE001, S110   what it raises is not judged
            pass
    if poison is None and ctx.rng.random() < 0.1:
        # history: a read (of another, cartesian text, through some reader class) abandoned at a random line of the library's code comes first
        from .. import trace  # noqa: PLC0415

        fp = trace.Failpoint.get()
        other_via = ctx.rng.choice(VIAS)
        _, n = fp.count(read, A.ABANDONED_TEXT, other_via)
        status, where = fp.inject(ctx.rng.randint(1, max(1, n)), read, A.ABANDONED_TEXT, other_via)
        ctx.hit("read-after-an-abandoned-read:" + status)
        wit["preceded_by_read_abandoned_at"] = [where, other_via]
    via = via or VIAS[_nread[0] % len(VIAS)]
    _nread[0] += 1
    wit["read_through"] = via
    _last_via[0] = via
    ctx.hit("read-through:" + via)
    try:
        ok, res = ctx.guard("read", wit, read, text, via)
    finally:
        if not memo:
            A.install_memo()
    if ok:
        compare(ctx, res, exp, wit)
    if len(ctx.samples) < 2 and nontrivial:
        ctx.sample({"text": text, "expected_amplitudes": [g["strs"] for g in exp["groups"]]})


def corpus(ctx):
    """The shipped model and the goofit test text: no abstract model, so the reference is a 40-line reader of the
    decay-line syntax (brace matching) + the same expansion rule by name."""
    import re  # noqa: PLC0415

    def parse_decay(s):
        m = re.match(r"([^\[\{,\}]+)(\[[^\]]*\])?(\{)?", s)
        name, tag, brace = m.group(1), m.group(2), m.group(3)
        if not brace:
            return A.Node(name), len(name)
        i = m.end()
        kids = []
        while True:
            k, n = parse_decay(s[i:])
            kids.append(k)
            i += n
            if s[i] == ",":
                i += 1
            elif s[i] == "}":
                i += 1
                break
        sp = ls = None
        if tag:
            parts = tag[1:-1].split(";")
            if parts[0] in ("S", "P", "D"):
                sp = parts[0]
                ls = parts[1] if len(parts) > 1 else None
            else:
                ls = parts[0]
        return A.Node(name, sp, ls, kids), i

    texts = {}
    with open(os.path.join(core.REPO, "models", "DtoKpipipi_v2.txt"), encoding="utf-8") as f:
        texts["models/DtoKpipipi_v2.txt"] = f.read()
    texts["test_goofit"] = "\n\n    # This is a test (should not affect output)\n\n    EventType D0 K- pi+ pi+ pi-\n\n    D0[D]{K*(892)bar0{K-,pi+},rho(770)0{pi+,pi-}} 2 1         0          2 0         0\n    "
    for label, text in texts.items():
        model = {"event": None, "lines": [], "params": [], "consts": [], "cartesian": None, "extras": []}
        for raw in text.splitlines():
            ln = raw.split("#")[0].split()
            if not ln:
                continue
            if ln[0] == "EventType":
                model["event"] = ln[1:]
            elif len(ln) == 7 and "{" in ln[0]:
                node, _ = parse_decay(ln[0])
                model["lines"].append({"kind": "top" if node.name == "D0" else "sub", "node": node, "nums": (int(ln[1]), float(ln[2]), float(ln[3]), int(ln[4]), float(ln[5]), float(ln[6]))})
            elif len(ln) == 4:
                model["params"].append((ln[0], ln[1], ln[2], ln[3]))
            elif len(ln) == 2:
                model["consts"].append((ln[0], ln[1]))
        wit = {"kind": "corpus", "label": label}
        ctx.case({"corpus": label}, True, "corpus")
        ctx.hit("shipped-model-or-test-text")
        ctx.hit("unmemoised-read") if label != "test_goofit" else None
        exp = A.expected(model)
        ok, res = ctx.guard("read", wit, read, text)
        if ok:
            compare(ctx, res, exp, wit)
            ctx.note("corpus:" + label, {"amplitudes": len(res[0]), "parameters": len(res[1]), "constants": len(res[2])})


def run(ctx):
    A.install_memo()
    n = ctx.pick(60, 400)
    for i in range(n):
        model = A.gen_model(ctx.rng)
        if i % 12 == 7 and model["consts"]:
            # (a quota, not a chance: the same constant name on two lines)
            nm0, v0 = model["consts"][0][0], model["consts"][0][1]
            model["consts"].insert(ctx.rng.randint(1, len(model["consts"])), (nm0, str(float(v0) + 1.5)) if len(model["consts"][0]) == 2 else model["consts"][0])
        if i % 5 == 4:
            model = A.mirror_model(model)       # the conjugate process: Dbar0 -> K+ pi- ..., every name in its conjugate spelling
            ctx.hit("conjugate-event-type")
        style = ctx.rng.randrange(10**9)
        check(ctx, model, style, memo=not (i == 3 and ctx.shard == 0))
        via_used = _last_via[0]
        if i % 3 == 1:
            # the next text of the process: the same lines under the other setting of the cartesian option (numbers now mean real / imaginary, or the reverse)
            import copy  # noqa: PLC0415

            m2 = copy.deepcopy(model)
            m2["cartesian"] = 1 if not model["cartesian"] else ctx.rng.choice([None, 0])
            ctx.hit("same-lines-read-again-under-the-other-cartesian-setting")
            check(ctx, m2, style, poison=False, via=(via_used if i % 2 else None))      # through the same reader class as before (or the next one in turn)
        if len(ctx.violations) >= ctx.max_violations:
            return
    if ctx.shard == ctx.nshards - 1:
        A.uninstall_memo() if not ctx.quick else None
        try:
            corpus(ctx)
        finally:
            A.install_memo()
    ctx.note("lookup_memo", dict(A._memo_stats))


def replay(ctx, w):
    A.install_memo()
    if w["kind"] == "options":
        check(ctx, A.model_from_json(w["model"]), w["style_seed"], "replay", poison="preceded_by_failed_read_of" in w, via=w.get("read_through"))
    else:
        corpus(ctx)
