"""C18 -- each amplitude is emitted with exactly its Bose-symmetrised permutations.

(a) W-enum for the permutation set: every binary decay-tree shape over 2..4 leaves x every leaf labelling x
every event type of 4 particles over an alphabet of 4 (all multiplicity patterns and arrangements), built
directly as ModelDecay objects -> the real list_structure, compared with brute force (itertools.permutations
+ filter; a different algorithm from the product-and-injectivity filter of the code).
(b) generated four-body option files over all 11 supported spin structures x both topologies x the four
lineshape kinds x three event types, converted by the real ampgen2goofit / ampgen2goofitpy; the emitted
code is read back (C++: text reader, Python: execution against a recording stand-in) and every amplitude
is compared with an oracle computed from the abstract amplitude: per permutation the spin factor(s)
carrying that permutation, one lineshape per resonance (declared kind, orbital momentum, invariant-mass
indices from the same permutation), the declared number of permutations; amplitudes once each, in input order.
"""
from __future__ import annotations

import itertools
import os
import random
import re
import shutil
import tempfile
from collections import Counter

from .. import ampgen as A
from .. import contracts, core
from .. import goofitread as G

RULE = ("(a) one case per (tree shape, leaf labelling, event type); (b) one case per (generated option file, output language); non-trivial = the amplitude "
        "has >= 2 permutations (identical particles in the event type); distinct by hash of the case")
ANCHORS = ["decaylanguage.modeling.decay:ModelDecay.list_structure", "decaylanguage.modeling.goofit:GooFitChain.make_spinfactor",
           "decaylanguage.modeling.goofit:GooFitChain.make_linefactor", "decaylanguage.modeling.goofit:GooFitChain.make_lineshape",
           "decaylanguage.modeling.goofit:GooFitChain.make_amplitude", "decaylanguage.modeling.goofit:GooFitPyChain.make_spinfactor",
           "decaylanguage.modeling.goofit:GooFitPyChain.make_linefactor", "decaylanguage.modeling.goofit:GooFitPyChain.make_lineshape",
           "decaylanguage.modeling.goofit:GooFitPyChain.make_amplitude", "decaylanguage.modeling.goofit:GooFitChain.spindetails"]
WORKERS = {"quick": 8, "thorough": 16}
WATCHDOG = {"quick": 900, "thorough": 3300}
WTESTS = {"groups": ['list_structure'], "tests": ['tests/test_goofit.py', 'tests/test_convert.py']}
REQUIRED = {"amplitude-with-coupling-exactly-zero": 2, "two-resonances-of-the-same-name-in-one-amplitude": 2, "direct-call:as-read": 10, "direct-call:reversed-in-place": 5, "direct-call:two-swapped-in-place": 5, "C18.direct_call_permutations_match_event_type_at_the_call": 30, "enum:all-shapes-and-patterns": 1, "enum:permutations>=4": 100, "enum:leaf-not-in-event-raises": 10,
            **{f"structure:{f}{w}": 2 for f, w in A.STRUCTURES}, **{f"lineshape:{k}": 4 for k in A.LS_KINDS}, "topology:two-resonances": 4, "topology:cascade": 4,
            "language:cpp": 10, "language:python": 10, "event:4-permutations": 2, "event:0": 2, "event:1": 2, "event:2": 2, "event:4": 2, "event:rearranged": 2, "event:particle-three-times(6-permutations)": 2, "event:identical-particles-not-adjacent": 2, "same-amplitudes-other-event-order-same-process": 2, "expanded-by-name": 2, "partial-line-referred-to-from>=2-places": 1, "two-body-vertex-written-in-reverse-order": 2,
            "C18.list_structure.equals_bruteforce": 1000}
EXHAUSTIVE_NOTE = "(a) is exhaustive: all binary tree shapes with 2..4 leaves x all leaf labellings x all 256 event types over a 4-letter alphabet"
ASSUMPTIONS = ["the mapping structure-key -> spin-factor kinds is the library's published table (input data)", "resonance-first ordering of cascade amplitudes (the only one the code supports)",
               "golden spin/J table of vmon.ampgen checked against the installed particle data at start"]


def shapes(n):
    """binary trees with n leaves as nested tuples of None placeholders -> list of structures with leaf slots numbered left to right"""
    if n == 1:
        return [None]
    out = []
    for k in range(1, n):
        for left in shapes(k):
            for right in shapes(n - k):
                out.append((left, right))
    return out


def build(shape, labels, parts, MD):
    it = iter(labels)

    def rec(s, top):
        if s is None:
            return MD(parts[next(it)])
        return MD(parts["M"] if top else parts["R"], [rec(s[0], False), rec(s[1], False)])

    return rec(shape, True)


def run_enum(ctx):
    from decaylanguage.modeling.decay import ModelDecay  # noqa: PLC0415
    from particle import Particle  # noqa: PLC0415

    parts = {"a": Particle.from_pdgid(-321), "b": Particle.from_pdgid(211), "c": Particle.from_pdgid(-211), "d": Particle.from_pdgid(321),
             "M": Particle.from_pdgid(421), "R": Particle.from_pdgid(113)}
    idx = 0
    patterns = set()
    for event in itertools.product("abcd", repeat=4):
        ev = [parts[x] for x in event]
        present = sorted(set(event))
        for n in (2, 3, 4):
            for shape in shapes(n):
                for labels in itertools.product(present, repeat=n):
                    idx += 1
                    if not ctx.mine(idx):
                        continue
                    tree = build(shape, labels, parts, ModelDecay)
                    exp = A.brute_permutations(list(labels), list(event))
                    ctx.case(idx and f"{event}{n}{shape}{labels}"[:0] or {"e": event, "s": repr(shape), "l": labels}, len(exp) >= 2, "enum")
                    patterns.add("".join(str(v) for v in sorted(Counter(event).values(), reverse=True)))
                    wit = {"kind": "enum", "event": list(event), "shape": repr(shape), "labels": list(labels)}
                    ok, got = ctx.guard("list_structure", wit, tree.list_structure, ev)
                    for v in contracts.drain():
                        ctx.violate(v["mechanism"], v["message"], wit)
                    if not ok:
                        continue
                    if len(exp) >= 4:
                        ctx.hit("enum:permutations>=4")
                    if sorted(got) != sorted(exp) or len(got) != len(set(got)):
                        ctx.violate("permutations:not-the-one-to-one-assignments", f"list_structure gives {sorted(got)[:6]} ({len(got)}), brute force {sorted(exp)[:6]} ({len(exp)})", wit)
        # a leaf that is not in the event type must be refused
        missing = [x for x in "abcd" if x not in present]
        if missing and ctx.mine(idx):
            tree = build((None, None), (present[0], missing[0]), parts, ModelDecay)
            try:
                got = tree.list_structure(ev)
                ctx.violate("permutations:leaf-not-in-event-accepted", f"returned {got}", {"kind": "enum", "event": list(event), "shape": "(None, None)", "labels": [present[0], missing[0]]})
            except RuntimeError:
                ctx.hit("enum:leaf-not-in-event-raises")
            contracts.drain()
    ctx.note("enum_patterns", sorted(patterns))


_nconvert = [0]


def convert(text, lang):
    """Run the real converter on a temporary file holding `text`."""
    from decaylanguage.modeling.ampgen2goofit import ampgen2goofit, ampgen2goofitpy  # noqa: PLC0415

    d = tempfile.mkdtemp(prefix="c18-", dir=core.WORK)
    try:
        f = os.path.join(d, "model.txt")
        with open(f, "w", encoding="utf-8", newline="") as fh:
            fh.write(text)
        _nconvert[0] += 1
        if _nconvert[0] % 4 == 1:
            # history: an option file that the grammar refuses half-way down (a missing brace, after complete amplitude / parameter / constant lines), or
            # one that names an unknown resonance, was handed to one of the converters just before
            bad = os.path.join(d, "typo.txt")
            with open(bad, "w", encoding="utf-8") as fh:
                fh.write(A.POISON_TEXTS[(_nconvert[0] // 4) % 2])
            try:
                (ampgen2goofit if (_nconvert[0] // 8) % 2 else ampgen2goofitpy)(bad, ret_output=True)
            except Exception:  # noqa: BLE001, S110   what it raises is not judged
                pass
        return (ampgen2goofit if lang == "cpp" else ampgen2goofitpy)(f, ret_output=True)
    finally:
        shutil.rmtree(d, ignore_errors=True)


def expected_extras(model, entry):
    pars = [p[0] for p in model["params"]]
    tag = entry["tag"]
    if entry["kind"] == "RBW":
        return ()
    if entry["kind"] == "GSpline":
        nm = entry["name"]
        gam = sorted((int(p.rsplit("::", 1)[1]), p) for p in pars if p.startswith(f"{nm}::Spline::Gamma::"))
        c = dict(model["consts"])
        return (1.5, tuple(p for _, p in gam), (float(c[f"{nm}::Spline::Min"]), float(c[f"{nm}::Spline::Max"]), float(int(float(c[f"{nm}::Spline::N"])))))
    if entry["kind"] == "kMatrix":
        _, poleprod, pterm = tag.split(".")
        fs = sorted((int(p[len("f_scatt"):]), p) for p in pars if p.startswith("f_scatt"))
        names = ("pipi", "KK", "4pi", "EtaEta", "EtapEta", "mass")
        isp = sorted((int(p[4:].split("_")[0]) * 6 + names.index(p[4:].split("_")[1]), p) for p in pars if p.startswith("IS_p"))
        return (float(pterm), poleprod == "pole", "sA0", "sA", "s0_prod", "s0_scatt", tuple(p for _, p in fs), tuple(p for _, p in isp), 1.5)
    return ("Lineshapes.FocusMod." + tag.split(".")[1], 1.5)


def check_file(ctx, model, style_seed, workload="gen"):
    from decaylanguage.modeling.goofit import known_spinfactors  # noqa: PLC0415

    text = A.render(model, random.Random(style_seed))
    groups = A.expand_trees(model)
    oracles = [[A.amplitude_oracle(t, model["event"], known_spinfactors) for t in trees] for _, trees in groups]
    flat = [o for g in oracles for o in g]
    for o, (ln, trees) in zip(oracles, groups):
        if len(trees) > 1 or any(x["kind"] == "sub" for x in model["lines"]):
            ctx.hit("expanded-by-name")
    def bare_uses(n, acc):
        if n.kids is None:
            acc.append(n.name)
        else:
            for k in n.kids:
                bare_uses(k, acc)

    if any(len(t.kids) == 2 and t.kids[0].kids is not None and t.kids[1].kids is not None and t.kids[0].name == t.kids[1].name for _, ts in groups for t in ts):
        ctx.hit("two-resonances-of-the-same-name-in-one-amplitude")
    if any(ln.get("switched_off") for ln in model["lines"]):
        ctx.hit("amplitude-with-coupling-exactly-zero")
    if any(getattr(ln["node"], "reversed_vertex", False) for ln in model["lines"]):
        ctx.hit("two-body-vertex-written-in-reverse-order")
    uses = []
    for ln in model["lines"]:
        if ln["kind"] == "top":
            bare_uses(ln["node"], uses)
    subnames = {ln["node"].name for ln in model["lines"] if ln["kind"] == "sub"}
    if any(uses.count(nm) >= 2 for nm in subnames):
        ctx.hit("partial-line-referred-to-from>=2-places")
    for o in flat:
        ctx.hit("topology:two-resonances" if o["two_res"] else "topology:cascade")
        if o["n"] >= 4:
            ctx.hit("event:4-permutations")
        if o["n"] >= 6:
            ctx.hit("event:particle-three-times(6-permutations)")
        for e in o["ls"]:
            ctx.hit("lineshape:" + e["kind"])
    ev_idx = [i for i, e in enumerate(A.EVENT_TYPES) if sorted(e) == sorted(model["event"])][0]
    ctx.hit("event:" + str(ev_idx))
    if model["event"] != A.EVENT_TYPES[ev_idx]:
        ctx.hit("event:rearranged")
    fin = model["event"][1:]
    if any(fin[i] == fin[j] and any(fin[k] != fin[i] for k in range(i + 1, j)) for i in range(4) for j in range(i + 1, 4)):
        ctx.hit("event:identical-particles-not-adjacent")
    for ln, trees in groups:
        for t in trees:
            a, b = t.kids
            two = a.kids is not None and b.kids is not None
            fam = None
            la = A.SPINS[a.name][0]
            if two:
                fam = {"VV": "VV", "VS": "VS", "SS": "SS"}.get(la + A.SPINS[b.name][0])
                wave = f"[{t.spin}]" if t.spin in ("P", "D") else ""
            else:
                fam = {"AV": "AVP", "AS": "ASP", "TV": "TVP", "sS": "sSP", "sV": "sVP"}.get(la + A.SPINS[a.kids[0].name][0])
                wave = "[D]" if a.spin == "D" else ""
            if fam:
                ctx.hit(f"structure:{fam}{wave}")
    for lang in ("cpp", "python"):
        wit = {"kind": "file", "model": A.model_to_json(model), "style_seed": style_seed, "language": lang, "text": text}
        ctx.case({"text": text, "lang": lang}, any(o["n"] >= 2 for o in flat), workload)
        ctx.hit("language:" + lang)
        ok, out = ctx.guard("convert:" + lang, wit, convert, text, lang)
        if not ok:
            continue
        try:
            m = G.read_cpp(out) if lang == "cpp" else G.run_py(out)
        except G.Unreadable as e:
            ctx.violate(f"emitted-code:unreadable:{lang}", str(e), {**wit, "output": out[-3000:]})
            continue
        except Exception as e:  # noqa: BLE001  NameError etc. while executing the Python output
            ctx.violate(f"emitted-code:does-not-run:{lang}:{type(e).__name__}", f"{type(e).__name__}: {e}", {**wit, "output": out[-3000:]})
            continue
        ctx.mon("C18.emitted_amplitudes_match_oracle")
        compare(ctx, model, m, oracles, {**wit, "output_tail": out[-1500:]}, lang)
    if ctx.rng.random() < 0.35:
        direct_calls(ctx, model, text, groups, known_spinfactors, style_seed)
    if len(ctx.samples) < 2:
        ctx.sample({"text": text, "amplitudes": [{"name": o["name"], "structure": o["key"], "permutations": o["perms"]} for o in flat]})


_SF = re.compile(r"SpinFactor\(\s*\"[^\"]*\"\s*,\s*[\w:.]+\s*,\s*(\d+)\s*,\s*(\d+)\s*,\s*(\d+)\s*,\s*(\d+)\s*\)")


def direct_calls(ctx, model, text, groups, known_spinfactors, style_seed):
    """The per-amplitude entry point asked directly: `line.to_goofit(final_states)` for the event type, then again after the
    caller rearranged that very list in place: each answer carries the assignments for the event type as it is at the time of the call."""
    from decaylanguage.modeling.goofit import GooFitChain, GooFitPyChain  # noqa: PLC0415

    trees = [t for _, ts in groups for t in ts]
    for cls, lang in ((GooFitChain, "cpp"), (GooFitPyChain, "python")):
        wit = {"kind": "direct", "model": A.model_to_json(model), "style_seed": style_seed, "language": lang, "text": text}
        ok, res = ctx.guard("read:" + lang, wit, lambda cls=cls: cls.read_ampgen(text=text))
        if not ok:
            continue
        lines, states = res
        if len(lines) != len(trees):
            continue            # the count is C17's business and is judged on the whole-file route above
        k = ctx.rng.randrange(len(lines))
        line, tree = lines[k], trees[k]
        final = states[1:]
        now = list(model["event"][1:])
        steps = ["as-read"] + ctx.rng.sample(["reversed-in-place", "two-swapped-in-place", "rotated-in-place"], 2)
        for step in steps:
            if step == "reversed-in-place":
                final.reverse()
                now.reverse()
            elif step == "two-swapped-in-place":
                i, j = ctx.rng.sample(range(4), 2)
                final[i], final[j] = final[j], final[i]
                now[i], now[j] = now[j], now[i]
            elif step == "rotated-in-place":
                final.append(final.pop(0))
                now.append(now.pop(0))
            w = {**wit, "amplitude_index": k, "event_type_at_the_call": list(now), "step": step}
            ctx.case({"text": text, "lang": lang, "k": k, "ev": tuple(now)}, True, "direct")
            ok, code = ctx.guard("to_goofit:" + lang, w, line.to_goofit, final)
            contracts.drain()
            if not ok:
                break
            got = {tuple(int(x) for x in m) for m in _SF.findall(code)}
            if not got:
                ctx.hit("direct-call:spin-factors-not-recognised-in-the-fragment(not judged)")
                break
            want = set(A.amplitude_oracle(tree, [model["event"][0], *now], known_spinfactors)["perms"])
            ctx.hit("direct-call:" + step)
            ctx.mon("C18.direct_call_permutations_match_event_type_at_the_call")
            if got != want:
                ctx.violate(f"direct-call:permutations-not-those-of-the-event-type-at-the-call:{lang}", f"{A.tree_str(tree)} for [{' '.join(now)}] ({step}): spin factors carry {sorted(got)}, one-to-one assignments are {sorted(want)}", w)
                break
        else:
            wave_assigned_on_the_line_object(ctx, cls, lang, model, groups, k, line, final, style_seed, wit)


def wave_assigned_on_the_line_object(ctx, cls, lang, model, groups, k, line, final, style_seed, wit):
    """The caller assigns another orbital wave to a line object that has already been emitted once (`line.spinfactor = "D"`) and emits it again: the fragment is
    the one a freshly read line with that wave written in the file gives."""
    import copy  # noqa: PLC0415

    flat = [(ln, t) for ln, ts in groups for t in ts]
    ln, tree = flat[k]
    a, b = tree.kids
    if a.kids is None or b.kids is None or A.SPINS[a.name][0] != "V" or A.SPINS[b.name][0] != "V" or len(groups) != len(flat):
        return          # only V V amplitudes carry a wave, and only when every written line is one amplitude (indices then agree)
    new = "D" if tree.spin != "D" else "P"
    m2 = copy.deepcopy(model)
    idx = [i for i, x in enumerate(model["lines"]) if x is ln]
    if not idx:
        return
    m2["lines"][idx[0]]["node"].spin = new
    text2 = A.render(m2, random.Random(style_seed))
    w = {**wit, "amplitude_index": k, "wave_assigned": new, "twin_text": text2}
    ok, res = ctx.guard("read:" + lang, w, lambda: cls.read_ampgen(text=text2))
    if not ok or len(res[0]) != len(flat):
        return
    ok, want = ctx.guard("to_goofit:" + lang, w, res[0][k].to_goofit, final)
    if not ok:
        return
    ctx.hit("wave-assigned-on-a-line-object-already-emitted")
    line.spinfactor = new
    ok, got = ctx.guard("to_goofit:" + lang, w, line.to_goofit, final)
    contracts.drain()
    if ok and got != want:
        import difflib  # noqa: PLC0415

        diff = [z for z in difflib.unified_diff(want.splitlines(), got.splitlines(), lineterm="", n=0)][:6]
        ctx.violate(f"direct-call:fragment-does-not-follow-the-wave-assigned-to-the-line:{lang}", " | ".join(diff), w)


def compare(ctx, model, m, oracles, wit, lang):
    got = m["amps"]
    flat = [o for g in oracles for o in g]
    if len(got) != len(flat):
        ctx.violate(f"amplitudes:count:{lang}", f"{len(got)} amplitudes emitted, {len(flat)} expected: {[a['name'] for a in got]}", wit)
        return
    pos = 0
    for g in oracles:
        chunk = got[pos: pos + len(g)]
        pos += len(g)
        if Counter(a["name"] for a in chunk) != Counter(o["name"] for o in g):
            ctx.violate(f"amplitudes:order-or-name:{lang}", f"emitted {[a['name'] for a in chunk]} expected {[o['name'] for o in g]}", wit)
            return
        byname = {o["name"]: o for o in g}
        for a in chunk:
            o = byname[a["name"]]
            w = {**wit, "amplitude": a["name"]}
            if a.get("bare"):
                ctx.violate(f"amplitude:not-a-sequence:{lang}", f"{a['name']}: {a['bare']} passed as a bare object instead of a sequence", w)
            if a["n"] != o["n"]:
                ctx.violate(f"amplitude:declared-permutation-count:{lang}", f"{a['name']}: declares {a['n']} permutations, there are {o['n']}", w)
            if Counter(a["sf"]) != Counter(o["sf"]):
                mech = "amplitude:spin-factors"
                if Counter(p for _, p in a["sf"]) != Counter(p for _, p in o["sf"]):
                    mech += ":permutations"
                ctx.violate(f"{mech}:{lang}", f"{a['name']}: spin factors {a['sf']} expected {o['sf']}", w)
            else:
                # per permutation: the block of kinds must be contiguous (each permutation carries all its spin factors)
                k = len(o["sf"]) // max(o["n"], 1) if o["n"] else 0
                if k and any(len({p for _, p in a["sf"][i:i + k]}) != 1 for i in range(0, len(a["sf"]), k)):
                    ctx.violate(f"amplitude:spin-factors:grouping:{lang}", f"{a['name']}: {a['sf']}", w)
            exp_ls = [dict(kind=e["kind"], name=e["name"], M=e["M"], W=e["W"], L=e["L"], mass=e["mass"], ff="FF.BL2", extras=expected_extras(model, e)) for e in o["ls"]]
            key = lambda d: repr(sorted(d.items()))  # noqa: E731
            if Counter(map(key, a["ls"])) != Counter(map(key, exp_ls)):
                gl = Counter((d["kind"], d["name"], d["mass"]) for d in a["ls"])
                el = Counter((d["kind"], d["name"], d["mass"]) for d in exp_ls)
                mech = "amplitude:lineshapes"
                if Counter((d["kind"], d["name"]) for d in a["ls"]) == Counter((d["kind"], d["name"]) for d in exp_ls) and gl != el:
                    mech += ":mass-indices"
                elif gl == el:
                    mech += ":arguments"
                ctx.violate(f"{mech}:{lang}", f"{a['name']}: lineshapes {a['ls'][:4]} expected {exp_ls[:4]}", w)
            elif o["n"] and len(exp_ls) % o["n"] == 0:
                # ... and permutation by permutation: GooFit pairs the lineshapes with the permutations by position, so the consecutive
                # block of each permutation must be the lineshapes of ONE assignment (the multiset over all blocks can agree when they are mixed up)
                v = len(exp_ls) // o["n"]
                blocks = lambda seq: Counter(tuple(sorted(map(key, seq[i:i + v]))) for i in range(0, len(seq), v))  # noqa: E731
                ctx.mon("C18.lineshapes_permutation_by_permutation")
                if blocks(a["ls"]) != blocks(exp_ls):
                    ctx.violate(f"amplitude:lineshapes:mass-indices:mixed-between-permutations:{lang}", f"{a['name']}: per permutation {[tuple(d['mass'] for d in a['ls'][i:i + v]) for i in range(0, len(a['ls']), v)]} expected {[tuple(d['mass'] for d in exp_ls[i:i + v]) for i in range(0, len(exp_ls), v)]}", w)
            if a.get("comment") is not None and a["comment"] != a["name"]:
                ctx.violate(f"amplitude:comment-name:{lang}", f"{a['comment']!r} vs {a['name']!r}", w)


def covering(ctx):
    """(structure x lineshape kind x event type) covering design, sharded over the workers."""
    combos = []
    for ev in (0, 1, 2, 4):
        for fam, wave in A.STRUCTURES:
            if fam in A.TEMPLATES[ev]:
                for lsk in A.LS_KINDS:
                    combos.append((ev, fam, wave, lsk))
    return combos


def run(ctx):
    contracts.arm("list_structure")
    A.install_memo()
    bad = A.check_golden_tables()
    if bad:
        ctx.inconclusive.append(f"golden spin table disagrees with the particle data: {bad[:3]}")
        return
    run_enum(ctx)
    rng = ctx.rng
    combos = covering(ctx)
    mine = [c for i, c in enumerate(combos) if ctx.mine(i)]
    # the worker's share of the covering design is grouped into files of up to 3 amplitudes
    byev = {}
    for ev, fam, wave, lsk in mine:
        byev.setdefault(ev, []).append((fam, wave, lsk))
    for ev, picks in byev.items():
        for i in range(0, len(picks), 3):
            model = A.gen_fourbody(rng, ev, picks[i:i + 3])
            check_file(ctx, model, rng.randrange(10**9))
            if len(ctx.violations) >= ctx.max_violations:
                return
    # every written template of every family once per run (the covering design above draws among a family's templates at random)
    k = 0
    for ev, fams in A.TEMPLATES.items() if isinstance(A.TEMPLATES, dict) else enumerate(A.TEMPLATES):
        for fam, ts in fams.items():
            for j in range(len(ts)):
                k += 1
                if len(ts) < 2 or not ctx.mine(k):
                    continue
                wave = rng.choice([w for f, w in A.STRUCTURES if f == fam] or [""])
                model = A.gen_fourbody(rng, ev, [(fam, wave, rng.choice(A.LS_KINDS))], template=j)
                ctx.hit("template-by-template")
                check_file(ctx, model, rng.randrange(10**9))
    for _ in range(ctx.pick(1, 12)):
        model = A.gen_fourbody(rng)
        seed = rng.randrange(10**9)
        check_file(ctx, model, seed)
        # the same amplitudes again in the same process under another arrangement of the event type
        fin = model["event"][1:]
        other = fin[:]
        for _try in range(8):
            rng.shuffle(other)
            if other != fin:
                break
        if other != fin:
            ctx.hit("same-amplitudes-other-event-order-same-process")
            check_file(ctx, {**model, "event": [model["event"][0], *other]}, seed)
    for name, k in contracts.COUNTS.items():
        if name.startswith("C18."):
            ctx.mon(name, k)


def finish(merged):
    pats = set(merged["notes"].get("enum_patterns", []))
    if {"4", "31", "22", "211", "1111"} <= pats:
        merged["classes"]["enum:all-shapes-and-patterns"] = 1


def replay(ctx, w):
    contracts.arm("list_structure")
    A.install_memo()
    if w["kind"] == "file":
        check_file(ctx, A.model_from_json(w["model"]), w["style_seed"], "replay")
    elif w["kind"] == "direct":
        from decaylanguage.modeling.goofit import known_spinfactors  # noqa: PLC0415

        model = A.model_from_json(w["model"])
        for _ in range(20):     # the rearrangements are drawn at random: several rounds
            direct_calls(ctx, model, w["text"], A.expand_trees(model), known_spinfactors, w["style_seed"])
    else:
        from decaylanguage.modeling.decay import ModelDecay  # noqa: PLC0415
        from particle import Particle  # noqa: PLC0415

        parts = {"a": Particle.from_pdgid(-321), "b": Particle.from_pdgid(211), "c": Particle.from_pdgid(-211), "d": Particle.from_pdgid(321),
                 "M": Particle.from_pdgid(421), "R": Particle.from_pdgid(113)}
        shape = eval(w["shape"])  # noqa: S307  nested tuples of None written by this module
        tree = build(shape, w["labels"], parts, ModelDecay)
        got = tree.list_structure([parts[x] for x in w["event"]])
        exp = A.brute_permutations(list(w["labels"]), list(w["event"]))
        ctx.case(w, True, "replay")
        if sorted(got) != sorted(exp) or len(got) != len(set(got)):
            ctx.violate("permutations:not-the-one-to-one-assignments", f"{sorted(got)} vs {sorted(exp)}", w)
