"""C19 -- C++ and Python GooFit outputs describe the same, self-contained model.

Every generated four-body option file (all supported spin structures and lineshape kinds, fit parameters,
spline and K-matrix families, fixed and free couplings) and the shipped model go through the real
ampgen2goofit / ampgen2goofitpy.  Monitors: (1) the C++ text (read) and the Python text (executed against a
recording stand-in for `goofit`) give the same abstract model; (2) every symbol is declared before use
(text scan for C++, absence of NameError for Python); (3) real and imaginary coefficient names differ;
(4) the Python output compiles and runs; (5) returned string == printed text == command-line output, apart
from the timestamp line; (6) both conversions succeed.
"""
from __future__ import annotations

import contextlib
import io
import os
import random
import re
import shutil
import subprocess
import sys
import tempfile

from .. import ampgen as A
from .. import core
from .. import goofitread as G

RULE = ("one case per (option file, output language, entry point); non-trivial = the file has >= 1 fit parameter and >= 1 amplitude with a non-RBW lineshape or "
        "a free coupling; distinct by hash of (text, language, entry point)")
ANCHORS = ["decaylanguage.modeling.ampgen2goofit:ampgen2goofit", "decaylanguage.modeling.ampgen2goofit:ampgen2goofitpy",
           "decaylanguage.modeling.goofit:GooFitChain.make_intro", "decaylanguage.modeling.goofit:GooFitChain.make_pars",
           "decaylanguage.modeling.goofit:GooFitPyChain.make_intro", "decaylanguage.modeling.goofit:GooFitPyChain.make_pars",
           "decaylanguage.modeling.goofit:GooFitChain.make_amplitude", "decaylanguage.modeling.goofit:GooFitPyChain.make_amplitude"]
WORKERS = {"quick": 8, "thorough": 16}
WATCHDOG = {"quick": 900, "thorough": 3300}
REQUIRED = {"step-wise-conversion-with-the-other-converter-reading-another-file-in-between": 4, "converted-with-colours-on": 3, "conjugate-event-type": 3, "conversion-after-a-failed-conversion-by-one-converter": 5, "free-coupling": 5, "fixed-coupling": 5, "free-parameter": 5, "fixed-parameter": 5, **{f"lineshape:{k}": 3 for k in A.LS_KINDS}, "spline-array": 3,
            "kmatrix-arrays": 3, "entry:returned-string": 10, "entry:printed": 10, "entry:command-line": 2, "shipped-model": 1, "python-executed": 10,
            "cross-language-compared": 10, "file-converted-again-after-another": 5, "converters-with-different-histories": 2}
ASSUMPTIONS = ["GooFit itself is not installed: the Python output runs against a recording stand-in whose vocabulary (Variable, DecayInfo4, Lineshapes.*, FF, SpinFactor, "
               "SF_4Body.*, Amplitude, every M_ab / M_ab_c) is taken from the stored reference output",
               "the shipped model does not define the K-matrix parameter sA0 (symbol sA_0): that one symbol is exempt from def-before-use for the shipped file, by name"]

TS = re.compile(r"^(\W*)Generated on .*$", re.M)


def strip_ts(s):
    return TS.sub("Generated on <timestamp>", s)


ANSI = re.compile(r"\x1b\[[0-9;]*m")


def plain(s):
    """without the timestamp and without colour escape codes (a file may have been converted once with colours on and once without)"""
    return ANSI.sub("", strip_ts(s))


def run_entry(path, lang, entry):
    from decaylanguage.modeling.ampgen2goofit import ampgen2goofit, ampgen2goofitpy  # noqa: PLC0415

    fn = ampgen2goofit if lang == "cpp" else ampgen2goofitpy
    if entry == "returned":
        buf = io.StringIO()
        with contextlib.redirect_stdout(buf):
            out = fn(path, ret_output=True)
        return out, buf.getvalue()
    if entry == "printed":
        buf = io.StringIO()
        with contextlib.redirect_stdout(buf):
            r = fn(path)
        return buf.getvalue(), r
    env = core.child_env()
    r = subprocess.run([sys.executable, "-m", "decaylanguage", "-G", "goofit" if lang == "cpp" else "goofitpy", path], capture_output=True, text=True,
                       env=env, timeout=600, cwd=os.path.dirname(path))
    if r.returncode != 0:
        raise RuntimeError(f"command line exited {r.returncode}: {r.stderr[-400:]}")
    return r.stdout, None


def models_differ(c, p):
    """Cross-language comparison of the two abstract models -> list of (mechanism, message)."""
    out = []
    for key in ("event", "constants", "resonance_variables", "masses", "arrays_resolved"):
        if c.get(key) != p.get(key):
            out.append(("cross-language:" + key, f"C++ {str(c.get(key))[:300]} vs Python {str(p.get(key))[:300]}"))
    if c["parameters"] != p["parameters"]:
        names = [k for k in set(c["parameters"]) | set(p["parameters"]) if c["parameters"].get(k) != p["parameters"].get(k)]
        what = "fixedness" if names and all(k in c["parameters"] and k in p["parameters"] and c["parameters"][k]["value"] == p["parameters"][k]["value"] for k in names) else "content"
        out.append((f"cross-language:parameters:{what}", f"parameters differ for {names[:4]}: C++ {[c['parameters'].get(k) for k in names[:2]]} Python {[p['parameters'].get(k) for k in names[:2]]}"))
    if len(c["amps"]) != len(p["amps"]):
        out.append(("cross-language:amplitude-count", f"{len(c['amps'])} vs {len(p['amps'])}"))
        return out
    for a, b in zip(c["amps"], p["amps"]):
        if a["name"] != b["name"] or a["n"] != b["n"]:
            out.append(("cross-language:amplitude-name-or-count", f"{a['name']} ({a['n']}) vs {b['name']} ({b['n']})"))
        if a["sf"] != b["sf"]:
            out.append(("cross-language:spin-factors", f"{a['name']}: {a['sf']} vs {b['sf']}"))
        if a["ls"] != b["ls"]:
            out.append(("cross-language:lineshapes", f"{a['name']}: {a['ls'][:2]} vs {b['ls'][:2]}"))
        for k in ("r", "i"):
            ca, pb = a["coeffs"][k], b["coeffs"][k]
            if ca["name"] != pb["name"]:
                out.append(("cross-language:coefficient-name", f"{ca['name']} vs {pb['name']}"))
            if ca["value"] != pb["value"]:
                out.append(("cross-language:coefficient-value", f"{ca['name']}: {ca['value']} vs {pb['value']}"))
            if ca["fixed"] != pb["fixed"]:
                out.append(("cross-language:coefficient-fixedness", f"{ca['name']}: C++ fixed={ca['fixed']} Python fixed={pb['fixed']}"))
            if pb["error"] is not None and ca["error"] != pb["error"]:
                out.append(("cross-language:coefficient-error", f"{ca['name']}: {ca['error']} vs {pb['error']}"))
    return out


_prev: dict = {}
_nconv = [0]


def again_after_another_file(ctx):
    """The previous case's file (still on disk, untouched) converted again after another file went through the same converters:
    the text must be what it was, and still declare what it uses."""
    if not _prev:
        return
    for lang in ("cpp", "python"):
        first = _prev["outs"].get((lang, "returned"))
        if first is None:
            continue
        wit = {**_prev["wit"], "language": lang, "entry": "returned", "repeated_after_another_file": True}
        ctx.hit("file-converted-again-after-another")
        ok, res = ctx.guard(f"conversion-fails:{lang}", wit, run_entry, _prev["path"], lang, "returned")
        if not ok:
            continue
        ctx.mon("C19.same_text_when_converted_again")
        if plain(res[0]) != plain(first):
            import difflib  # noqa: PLC0415

            diff = [x for x in difflib.unified_diff(plain(first).splitlines(), plain(res[0]).splitlines(), lineterm="", n=0)][:6]
            ctx.violate(f"conversion:differs-when-repeated-after-another-file:{lang}", " | ".join(diff), wit)
        if lang == "cpp":
            try:
                und = G.read_cpp(res[0])["undeclared"]
                if und and not _prev["shipped"]:
                    ctx.violate("cpp-output:symbol-not-declared-before-use", f"{und[:5]} (file converted again after another one)", wit)
            except G.Unreadable as e:
                ctx.violate("emitted-code:unreadable:cpp", str(e), wit)


def stepwise_with_the_other_converter_in_between(ctx, path, other_path, wit0):
    """The notebooks' step-wise use of a converter class (read_ampgen, then make_intro / make_pars / line.to_goofit) with two models alive: after this
    converter read `path`, the *other* converter reads another file; what this converter then emits still describes `path` -- its own parameters,
    arrays and spline binnings."""
    from decaylanguage.modeling.goofit import GooFitChain, GooFitPyChain  # noqa: PLC0415

    for lang, cls, other in (("cpp", GooFitChain, GooFitPyChain), ("python", GooFitPyChain, GooFitChain)):
        wit = {**wit0, "language": lang, "entry": "step-wise", "other_converter_read_in_between": True}
        ctx.hit("step-wise-conversion-with-the-other-converter-reading-another-file-in-between")

        def pieces(lines, states, cls=cls):
            return {"intro": cls.make_intro(states), "parameters": cls.make_pars(), "amplitudes": [ln.to_goofit(states[1:]) for ln in lines]}

        def both(cls=cls, other=other):
            lines, states = cls.read_ampgen(path)
            a = pieces(lines, states)
            other.read_ampgen(other_path)
            return a, pieces(lines, states)

        ok, res = ctx.guard(f"conversion-fails:{lang}:step-wise", wit, both)
        if not ok:
            continue
        ctx.mon("C19.step_wise_output_describes_its_own_file")
        a, b = res
        for k in a:
            if a[k] != b[k]:
                import difflib  # noqa: PLC0415

                x, y = ("\n".join(a[k]), "\n".join(b[k])) if isinstance(a[k], list) else (a[k], b[k])
                diff = [z for z in difflib.unified_diff(x.splitlines(), y.splitlines(), lineterm="", n=0)][:6]
                ctx.violate(f"step-wise:{k}-change-when-the-other-converter-reads-another-file:{lang}", " | ".join(diff), wit)
                break


def check_text(ctx, text, wit0, label, shipped=False, cli=False, nontrivial=True):
    d = tempfile.mkdtemp(prefix="c19-", dir=core.WORK)
    keep = False
    try:
        path = os.path.join(d, "model.txt")
        with open(path, "w", encoding="utf-8", newline="") as fh:
            fh.write(text)
        outs = {}
        _nconv[0] += 0 if shipped else 1
        if not shipped and _nconv[0] % 3 == 1:
            # history: one of the two converters has just failed on another file (cartesian option on, unknown resonance further down)
            bad = os.path.join(d, "unreadable.txt")
            with open(bad, "w", encoding="utf-8") as fh:
                fh.write(A.POISON_TEXTS[(_nconv[0] // 3 + 1) % 2])
            which = ctx.rng.choice(["cpp", "python"])
            ctx.hit("conversion-after-a-failed-conversion-by-one-converter")
            wit0 = {**wit0, "preceded_by_failed_conversion": which, "of_text": A.POISON_TEXTS[(_nconv[0] // 3 + 1) % 2]}
            try:
                run_entry(bad, which, "returned")
            except Exception:  # noqa: BLE001, S110   what it raises is not judged
                pass
        # every fourth text is converted the way a terminal user sees it: plumbum's colours switched on (header lines carry escape codes)
        coloured = (not shipped) and _nconv[0] % 4 == 2
        if coloured:
            from plumbum import colors as _colors  # noqa: PLC0415

            ctx.hit("converted-with-colours-on")
            _old_colour = _colors.use_color
            _colors.use_color = 1
            wit0 = {**wit0, "colours": "on"}
        for lang in ("cpp", "python"):
            for entry in (["returned", "printed"] + (["cli"] if cli and not coloured else [])):
                wit = {**wit0, "language": lang, "entry": entry}
                ctx.case({"t": text if len(text) < 20000 else label, "l": lang, "e": entry}, nontrivial, "shipped" if shipped else "gen")
                ctx.hit({"returned": "entry:returned-string", "printed": "entry:printed", "cli": "entry:command-line"}[entry])
                ok, res = ctx.guard(f"conversion-fails:{lang}", wit, run_entry, path, lang, entry)
                if not ok:
                    continue
                out, other = res
                outs[(lang, entry)] = out
                if entry == "returned" and other.strip():
                    ctx.violate(f"returned-string:printed-instead:{lang}", f"ret_output=True still printed {other[:200]!r}", wit)
                if entry == "printed" and other is not None:
                    ctx.violate(f"printed:returned-something:{lang}", f"{other!r}"[:200], wit)
        if coloured:
            _colors.use_color = _old_colour
        ctx.mon("C19.entry_points_agree")
        for lang in ("cpp", "python"):
            base = outs.get((lang, "returned"))
            for entry in ("printed", "cli"):
                o = outs.get((lang, entry))
                if base is not None and o is not None and strip_ts(o) != strip_ts(base):
                    import difflib  # noqa: PLC0415

                    diff = [x for x in difflib.unified_diff(strip_ts(base).splitlines(), strip_ts(o).splitlines(), lineterm="", n=0)][:8]
                    ctx.violate(f"entry-points-differ:{lang}:{entry}", "returned string vs " + entry + ": " + " | ".join(diff), {**wit0, "language": lang, "entry": entry})
        models = {}
        cpp = outs.get(("cpp", "returned"))
        py = outs.get(("python", "returned"))
        if cpp is not None:
            try:
                models["cpp"] = G.read_cpp(cpp)
            except G.Unreadable as e:
                ctx.violate("emitted-code:unreadable:cpp", str(e), {**wit0, "output": cpp[-2000:]})
        if py is not None:
            ctx.mon("C19.python_output_runs")
            try:
                compile(py, "<generated>", "exec")
            except SyntaxError as e:
                ctx.violate("python-output:does-not-compile", str(e), {**wit0, "output": py[-2000:]})
            else:
                try:
                    models["python"] = G.run_py(py, preseed={"sA_0": "sA_0"} if shipped else None)
                    ctx.hit("python-executed")
                except NameError as e:
                    ctx.violate("python-output:symbol-used-before-declaration", str(e), {**wit0, "output": py[-2000:]})
                except G.Unreadable as e:
                    ctx.violate("emitted-code:unreadable:python", str(e), {**wit0, "output": py[-2000:]})
                except Exception as e:  # noqa: BLE001
                    ctx.violate("python-output:does-not-run:" + type(e).__name__, f"{type(e).__name__}: {e}", {**wit0, "output": py[-2000:]})
        if "cpp" in models:
            ctx.mon("C19.cpp_declared_before_use")
            und = [u for u in models["cpp"]["undeclared"] if not (shipped and u[0] == "sA_0")]
            if shipped and len(und) != len(models["cpp"]["undeclared"]):
                ctx.note("exempt_symbols_shipped_model", ["sA_0"])
            if und:
                ctx.violate("cpp-output:symbol-not-declared-before-use", f"{und[:5]}", {**wit0, "output": cpp[-2000:]})
            for a in models["cpp"]["amps"]:
                if not a["registered"]:
                    ctx.violate("cpp-output:amplitude-not-registered", a["name"], wit0)
        for lang, m in models.items():
            ctx.mon("C19.coefficient_names_distinct")
            for a in m["amps"]:
                if a["coeffs"]["r"]["name"] == a["coeffs"]["i"]["name"]:
                    ctx.violate(f"coefficients:same-name:{lang}", f"{a['name']}: both coefficients named {a['coeffs']['r']['name']!r}", wit0)
                if a.get("bare"):
                    ctx.violate(f"amplitude:not-a-sequence:{lang}", f"{a['name']}: {a['bare']} passed as a bare object", wit0)
                ctx.hit("free-coupling" if not a["coeffs"]["r"]["fixed"] else "fixed-coupling")
                for e in a["ls"]:
                    ctx.hit("lineshape:" + e["kind"])
            for q, v in m["parameters"].items():
                ctx.hit("fixed-parameter" if v["fixed"] else "free-parameter")
            if any(k.endswith("_SplineArr") for k in m["arrays_resolved"]):
                ctx.hit("spline-array")
            if "f_scatt" in m["arrays_resolved"] and "IS_poles" in m["arrays_resolved"]:
                ctx.hit("kmatrix-arrays")
        if "python" in models and not models["python"]["amplitudes_assigned"]:
            ctx.violate("python-output:amplitudes-not-assigned", "DK3P_DI.amplitudes is not the amplitude list after running the returned text", wit0)
        if "cpp" in models and "python" in models:
            ctx.hit("cross-language-compared")
            ctx.mon("C19.cross_language_models_equal")
            for mech, msg in models_differ(models["cpp"], models["python"]):
                ctx.violate(mech, msg, wit0)
            if len(ctx.samples) < 2 and not shipped:
                ctx.sample({"text": text, "amplitudes": [a["name"] for a in models["cpp"]["amps"]], "parameters": len(models["cpp"]["parameters"])})
        if _prev.get("path") and not shipped and _nconv[0] % 2 == 0:
            stepwise_with_the_other_converter_in_between(ctx, path, _prev["path"], wit0)
        again_after_another_file(ctx)
        if _prev.get("dir"):
            shutil.rmtree(_prev["dir"], ignore_errors=True)
        _prev.clear()
        if not shipped:
            _prev.update({"dir": d, "path": path, "outs": outs, "wit": wit0, "shipped": shipped})
            keep = True
    finally:
        if not keep:
            shutil.rmtree(d, ignore_errors=True)


def cpp_only_first(ctx, model):
    """Give the two converters different histories: a related model (same spline resonances, other binning) goes through the C++ converter only."""
    import copy  # noqa: PLC0415

    m2 = copy.deepcopy(model)
    m2["consts"] = [(n, {"Max": "2.5", "Min": "0.3"}.get(n.rsplit("::", 1)[1], v)) for n, v in m2["consts"]]
    if m2["consts"] == model["consts"]:
        return
    ctx.hit("converters-with-different-histories")
    d = tempfile.mkdtemp(prefix="c19pre-", dir=core.WORK)
    try:
        path = os.path.join(d, "model.txt")
        with open(path, "w", encoding="utf-8", newline="") as fh:
            fh.write(A.render(m2, random.Random(1)))
        ctx.guard("conversion-fails:cpp", {"kind": "file", "model": A.model_to_json(m2), "style_seed": 1}, run_entry, path, "cpp", "returned")
    finally:
        shutil.rmtree(d, ignore_errors=True)


_nmodel = [0]


def check_model(ctx, model, style_seed, cli=False):
    _nmodel[0] += 1
    if _nmodel[0] % 2:      # (every second model: a quota, not a chance)
        cpp_only_first(ctx, model)
    text = A.render(model, random.Random(style_seed))
    res = [r for ln in model["lines"] for r in A.resonances(ln["node"])]
    nontrivial = bool(model["params"]) and (any(r.ls for r in res) or any(ln["nums"][0] == 0 for ln in model["lines"]))
    check_text(ctx, text, {"kind": "file", "model": A.model_to_json(model), "style_seed": style_seed, "text": text}, "gen", cli=cli, nontrivial=nontrivial)


def run(ctx):
    A.install_memo()
    bad = A.check_golden_tables()
    if bad:
        ctx.inconclusive.append(f"golden spin table disagrees with the particle data: {bad[:3]}")
        return
    rng = ctx.rng
    kinds = A.LS_KINDS
    for i in range(ctx.pick(3, 14)):
        lsk = kinds[(i + ctx.shard) % 4]
        picks = [(f, w, lsk) for f, w in rng.sample(A.STRUCTURES, 3)]
        model = A.gen_fourbody(rng, rng.randrange(3), picks)
        if i % 3 == 2:
            model = A.mirror_fourbody(model)       # the charge-conjugate process (Dbar0 -> K+ pi- ...): every name in its conjugate spelling
            ctx.hit("conjugate-event-type")
        check_model(ctx, model, rng.randrange(10**9), cli=(i == 0 and ctx.shard < ctx.pick(2, 8)))
        if len(ctx.violations) >= ctx.max_violations:
            return
    if ctx.shard == ctx.nshards - 1:
        with open(os.path.join(core.REPO, "models", "DtoKpipipi_v2.txt"), encoding="utf-8") as f:
            text = f.read()
        ctx.hit("shipped-model")
        check_text(ctx, text, {"kind": "shipped", "file": "models/DtoKpipipi_v2.txt"}, "shipped", shipped=True, cli=not ctx.quick)
    if _prev.get("dir"):
        shutil.rmtree(_prev["dir"], ignore_errors=True)


def replay(ctx, w):
    A.install_memo()
    if w["kind"] == "file":
        check_model(ctx, A.model_from_json(w["model"]), w["style_seed"], cli=(w.get("entry") == "cli"))
    else:
        with open(os.path.join(core.REPO, w["file"]), encoding="utf-8") as f:
            check_text(ctx, f.read(), w, "shipped", shipped=True)
