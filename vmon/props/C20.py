"""C20 -- conversion output depends only on the input file.

History checker over processes: a history of read/convert calls (pool of 6 option files with different
resonance content, two of them with the cartesian option; five entry points over the three reader classes)
is executed in one fresh interpreter; every call's result is compared with the result of the *same single
call in its own fresh interpreter* (memoised per (file, entry point, hash seed)).  Text comparison drops the
timestamp line and compares the blocks of mutually independent declarations as multisets.  Across
PYTHONHASHSEED values only that order-insensitive form is compared; the same history run twice with the same
hash seed must reproduce the text exactly (apart from the timestamp).
"""
from __future__ import annotations

import itertools
import json
import os
import random
import re
import shutil
import subprocess
import sys
import tempfile

from .. import ampgen as A
from .. import core

ENTRIES = ["read", "cpp", "py", "read_cpp", "read_py"]
RULE = ("one case = one history (sequence of (pool file, entry point)) at one hash seed, run in a fresh interpreter and compared call by call with single-call "
        "fresh-interpreter runs; non-trivial = history of length >= 2 over two different files; distinct by hash of (history, hash seed)")
ANCHORS = []
WORKERS = {"quick": 12, "thorough": 16}
WATCHDOG = {"quick": 1200, "thorough": 3400}
REQUIRED = {"pair:A-has-resonance-B-lacks": 5, "pair:A-cartesian-B-not": 3, "pair:crossing-reader-classes": 5, "hash-seeds>=2": 1, "exact-reproducibility-run": 2,
            "history-length>=3": 2, "same-long-file-through-two-reader-classes-back-to-back": 2, "printing-conversion-after-a-failed-returning-one": 2, "failed-cartesian-read-then-polar-file": 5, "event-type-with-a-special-table-particle-read-after-another-file": 2, "two-reads-through-a-user-reader-class": 2, "read-refused-by-the-options-grammar-then-another-file": 2, "printing-conversion-with-colours-after-a-returning-one": 2, "text-argument-read-after-another-read": 2, "same-amplitudes-under-two-event-orders-in-one-process": 2, "file-converted-again-after-another": 2, "same-bare-resonance-name-different-sub-lines": 2, "fresh-single-runs": 10, **{f"entry:{e}": 3 for e in ENTRIES}, "across-hash-seeds-compared": 3, "all-ordered-file-pairs": 1}
EXHAUSTIVE_NOTE = "all 36 ordered pairs of pool files are run in every tier (entry points rotated over the 25 ordered entry pairs); all ordered triples of 3 files in thorough"
ASSUMPTIONS = ["inside the fresh interpreters the pure name lookup is memoised per (name, particle-table size); the library's one-time loading of the special particles happens inside each history",
               "the parent cannot instrument the child interpreters with sys.monitoring: anchors are not traced for this property (results are observed at the process boundary)"]

N_POOL = 6


def pool_models():
    specs = [
        (0, [("VV", "[D]", "RBW"), ("AVP", "", "GSpline")], None),
        (0, [("SS", "", "kMatrix"), ("VS", "", "FOCUS")], None),
        (0, [("VV", "[P]", "RBW"), ("sVP", "", "RBW")], 1),
        (1, [("VV", "", "RBW"), ("AVP", "[D]", "GSpline")], 0),
        (2, [("VV", "", "RBW"), ("TVP", "", "RBW"), ("SS", "", "kMatrix")], 1),
        (0, [("TVP", "", "GSpline"), ("ASP", "", "FOCUS")], None),
    ]
    out = []
    for i, (ev, picks, cart) in enumerate(specs):
        r = random.Random(f"C20-pool-{i}")
        m = A.gen_fourbody(r, ev, picks, dangle=False)
        m["cartesian"] = cart
        if i in (3, 5):
            # one more block of spline constants, for a resonance without Gamma parameters (nothing is emitted for it)
            m["consts"] = [*m["consts"], ("K(1460)bar-::Spline::Min", "0.5"), ("K(1460)bar-::Spline::Max", "2.5"), ("K(1460)bar-::Spline::N", "3"),
                           ("omega(782)0::Spline::N", "4"), ("omega(782)0::Spline::Min", "0.2"), ("omega(782)0::Spline::Max", "1.2")]
        out.append(m)
    # files 0 and 5 both write the resonance K(1)(1270)bar- as a bare name with its decay on separate lines -- different ones in the two files
    for i, subs in ((0, ["K(1)(1270)bar-{K*(892)bar0{K-,pi+},pi-}"]), (5, ["K(1)(1270)bar-[D]{rho(770)0{pi+,pi-},K-}", "K(1)(1270)bar-{K*(892)bar0{K-,pi+},pi-}"])):
        r = random.Random(f"C20-dangle-{i}")
        top, _ = A.parse_decay("D0{K(1)(1270)bar-,pi+}")
        extra = [{"kind": "top", "node": top}] + [{"kind": "sub", "node": A.parse_decay(t)[0]} for t in subs]
        for ln in extra:
            ln["nums"] = (0, round(r.uniform(0.1, 2), 5), round(r.uniform(0.001, 0.1), 5), 0, round(r.uniform(-3.1, 3.1), 5), round(r.uniform(0.001, 0.1), 5))
        out[i]["lines"] = out[i]["lines"] + extra
    return out


def resonance_names(model):
    return {r.name for ln in model["lines"] for r in A.resonances(ln["node"])}


REARRANGED = N_POOL + 1
SPECIAL = N_POOL + 2   # index of the pool file whose event type names a particle of the library's own table of special (Mint / Dalitz) particles
SYNTAX_POISON = N_POOL + 3   # index of the pool file that the options grammar refuses half-way down (missing brace) after complete lines
SPECIAL_TEXT = ("\nEventType K(1460)+ K+ pi+ pi-\n"
                "K(1460)+{K*(892)0{K+,pi-},pi+}  0 0.196037 0.0012135 0 -0.390311 0.00629977\n"
                "K(1460)+{rho(770)0{pi+,pi-},K+}  2 1.0 0.0 2 0.0 0.0\n")
POISON = N_POOL     # index of the pool file that cannot be read to the end (cartesian option on, unknown resonance further down)


def write_pool(workdir):
    models = pool_models()
    for i, m in enumerate(models):
        with open(os.path.join(workdir, f"pool{i}.txt"), "w", encoding="utf-8") as f:
            f.write(A.render(m, random.Random(i), style={"crlf": False, "indent": False, "comments": i % 2 == 0, "blank": True}))
            if i == 4:      # one long file (the shipped model has 18 kB): the same amplitudes, 8 kB of comment lines behind them
                f.write("".join(f"# note {k:03d}: tuned on the 2019 sample, do not edit by hand ..........\n" for k in range(130)))
    with open(os.path.join(workdir, f"pool{POISON}.txt"), "w", encoding="utf-8") as f:
        f.write(A.POISON_TEXT)
    models.append({"event": ["D0", "K-", "pi+", "pi+", "pi-"], "lines": [], "params": [], "consts": [], "cartesian": 1, "extras": [], "unreadable": True})
    # pool file 7: the amplitudes of file 0 under another order of the event type (same particles, other positions)
    ev = models[0]["event"]
    twin = dict(models[0], event=[ev[0], *ev[2:], ev[1]])
    with open(os.path.join(workdir, f"pool{REARRANGED}.txt"), "w", encoding="utf-8") as f:
        f.write(A.render(twin, random.Random(0), style={"crlf": False, "indent": False, "comments": True, "blank": True}))
    models.append(twin)
    # pool file 8: the decaying particle of the event type is one the library takes from its special-particle table (another mass and width than the PDG table)
    with open(os.path.join(workdir, f"pool{SYNTAX_POISON}.txt"), "w", encoding="utf-8") as f:
        f.write(A.SYNTAX_POISON_TEXT)
    with open(os.path.join(workdir, f"pool{SPECIAL}.txt"), "w", encoding="utf-8") as f:
        f.write(SPECIAL_TEXT)
    models.append({"event": ["K(1460)+", "K+", "pi+", "pi-"], "lines": [], "params": [], "consts": [], "cartesian": None, "extras": []})
    models.append({"event": ["D0", "K-", "pi+", "pi+", "pi-"], "lines": [], "params": [], "consts": [], "cartesian": 1, "extras": [], "unreadable": True})
    return models


def run_history(workdir, hist, hashseed, timeout=900, color=False):
    env = core.child_env()
    env["PYTHONHASHSEED"] = str(hashseed)
    env.pop("FORCE_COLOR", None)
    if color:
        env["FORCE_COLOR"] = "1"       # histories with a printing conversion run the way a terminal user sees them: colours on (their single-call references too)
    r = subprocess.run([sys.executable, "-m", "vmon.c20_runner", workdir, json.dumps(hist)], capture_output=True, text=True, env=env, timeout=timeout, cwd=core.VERIF)
    if r.returncode != 0:
        raise core.Inconclusive(f"runner failed rc={r.returncode}: {r.stderr[-500:]}")
    return json.loads(r.stdout)


TS = re.compile(r"^(\W*)Generated on .*$", re.M)


def canon_text(t):
    """Order-insensitive form: header lines, constants, resonance variables and array blocks as multisets; the rest in order."""
    t = TS.sub("Generated on <timestamp>", t)
    cpp = "// Intro" in t
    head_end = t.find("*/") if cpp else t.find("'''", 3)
    header, body = t[:head_end], t[head_end:]
    lines = body.splitlines()
    consts, resv, rest = [], [], []
    blocks, cur = [], None
    for ln in lines:
        s = ln.strip()
        if cur is not None:
            cur.append(s)
            if s.endswith("}};") or s.endswith("]"):
                blocks.append(tuple(cur))
                cur = None
            continue
        if re.match(r"constexpr fptype \w+", s) or re.match(r"^[A-Z_0-9]+\s*=\s*[-+0-9.eE]+$", s):
            consts.append(s)
        elif re.match(r'Variable \w+_[MW]\s*\{ "', s) or re.match(r'^\w+_[MW]\s*= Variable\("', s):
            resv.append(s)
        elif s.startswith("std::vector<Variable>") or re.match(r"^\w+ =\s+\[$", s):
            cur = [s]
        else:
            rest.append(ln.rstrip())
    return {"header": sorted(x.rstrip() for x in header.splitlines()), "constants": sorted(consts), "resonance_variables": sorted(resv),
            "arrays": sorted(blocks), "rest": rest}


def canon(result):
    if "text" in result:
        return {"text": canon_text(result["text"])}
    if "intro" in result:
        return {**{k: result[k] for k in ("particles", "cartesian") if k in result}, "read2": result["read2"], "states": result["states"], "intro": canon_text("// Intro\n*/" + result["intro"]) if "constexpr" in result["intro"] else canon_text("'''\n'''" + result["intro"]),
                "pars": canon_text(("// Intro\n*/" if "std::" in result["pars"] or "{" in result["pars"] else "'''\n'''") + result["pars"])}
    return {k: v for k, v in result.items() if k != "stdout"}


def first_diff(a, b, path=""):
    if type(a) is not type(b):
        return f"{path}: {str(a)[:120]!r} vs {str(b)[:120]!r}"
    if isinstance(a, dict):
        for k in a:
            if a[k] != b.get(k):
                return first_diff(a[k], b.get(k), path + "/" + str(k))
        return f"{path}: keys {sorted(set(b) - set(a))}"
    if isinstance(a, list):
        if len(a) != len(b):
            extra = [x for x in a if x not in b][:2] + [x for x in b if x not in a][:2]
            return f"{path}: {len(a)} vs {len(b)} items; differing: {str(extra)[:300]}"
        for i, (x, y) in enumerate(zip(a, b)):
            if x != y:
                return first_diff(x, y, f"{path}[{i}]")
    return f"{path}: {str(a)[:150]!r} vs {str(b)[:150]!r}"


class Runner:
    def __init__(self, ctx, workdir, models):
        self.ctx, self.workdir, self.models = ctx, workdir, models
        self.fresh = {}

    def single(self, f, e, seed, color=False):
        key = (f, e, seed, color)
        if key not in self.fresh:
            # single-call results are shared between the workers of one run through files in the run directory
            shared = os.environ.get("VMON_RUN_DIR")
            path = os.path.join(shared, f"c20-single-{f}-{e}-{seed}{'-color' if color else ''}.json") if shared else None
            res = None
            if path and os.path.exists(path):
                try:
                    with open(path) as fh:
                        res = json.load(fh)
                    self.ctx.hit("fresh-single-shared")
                except ValueError:
                    res = None
            if res is None:
                self.ctx.hit("fresh-single-runs")
                res = run_history(self.workdir, [[f, e]], seed, color=color)[0]
                if path:
                    tmp = path + f".{os.getpid()}.tmp"
                    with open(tmp, "w") as fh:
                        json.dump(res, fh)
                    os.replace(tmp, path)
            self.fresh[key] = res
        return self.fresh[key]

    def check(self, hist, seed, workload):
        ctx = self.ctx
        files = [f for f, _ in hist]
        ctx.case({"h": hist, "s": seed}, len(hist) >= 2 and len(set(files)) >= 2, workload)
        wit = {"kind": "history", "history": hist, "hashseed": seed}
        for _, e in hist:
            ctx.hit("entry:" + e)
        if len(hist) >= 3:
            ctx.hit("history-length>=3")
        if len(hist) == 3 and hist[0] == hist[2] and hist[0][0] != hist[1][0]:
            ctx.hit("file-converted-again-after-another")
        if {0, REARRANGED} <= set(files):
            ctx.hit("same-amplitudes-under-two-event-orders-in-one-process")
        if any(e.endswith("_text") for _, e in hist[1:]):
            ctx.hit("text-argument-read-after-another-read")
        if any(e.endswith("_print") for _, e in hist[1:]):
            ctx.hit("printing-conversion-with-colours-after-a-returning-one")
        if len(hist) >= 2 and hist[0][0] == hist[1][0] == 4 and hist[0][1] != hist[1][1]:
            ctx.hit("same-long-file-through-two-reader-classes-back-to-back")
        if hist[0][0] == POISON and hist[0][1] in ("cpp", "py") and len(hist) >= 2 and hist[1][1].endswith("_print"):
            ctx.hit("printing-conversion-after-a-failed-returning-one")
        if hist[0][0] == POISON and len(hist) >= 2:
            ctx.hit("failed-cartesian-read-then-polar-file")
        if hist[0][0] == SYNTAX_POISON and len(hist) >= 2:
            ctx.hit("read-refused-by-the-options-grammar-then-another-file")
        if sum(1 for _, e in hist if e.startswith("read_user_")) >= 2:
            ctx.hit("two-reads-through-a-user-reader-class")
        if SPECIAL in files[1:] and files[0] != SPECIAL:
            ctx.hit("event-type-with-a-special-table-particle-read-after-another-file")
        dn = [f for f, _ in hist if f in (0, 5)]
        if len(set(dn)) == 2:
            ctx.hit("same-bare-resonance-name-different-sub-lines")
        for (fa, ea), (fb, eb) in zip(hist, hist[1:]):
            if resonance_names(self.models[fa]) - resonance_names(self.models[fb]):
                ctx.hit("pair:A-has-resonance-B-lacks")
            if self.models[fa]["cartesian"] == 1 and not self.models[fb]["cartesian"]:
                ctx.hit("pair:A-cartesian-B-not")
            cls = {"read_user_cpp": "UC", "read_user_py": "UP", "read_user_base": "UA", "read": "A", "cpp": "C", "read_cpp": "C", "py": "P", "read_py": "P", "cpp_print": "C", "py_print": "P", "read_cpp_text": "C", "read_py_text": "P"}
            if cls[ea] != cls[eb]:
                ctx.hit("pair:crossing-reader-classes")
        color = any(e.endswith("_print") for _, e in hist)
        results = run_history(self.workdir, hist, seed, color=color)
        ctx.mon("C20.call_in_history_equals_fresh_single_call")
        for i, ((f, e), res) in enumerate(zip(hist, results)):
            ref = self.single(f, e, seed, color)
            if "raised" in res or "raised" in ref:
                if res.get("raised") != ref.get("raised"):
                    ctx.violate("history:raises-differently:" + e, f"step {i} {(f, e)}: in history {res.get('raised')!r}, fresh {ref.get('raised')!r}", {**wit, "step": i})
                elif "raised" in ref and f not in (POISON, SYNTAX_POISON):
                    ctx.violate("conversion-raises:" + e, f"pool file {f} entry {e}: {ref['raised']}\n{ref.get('traceback', '')}", {**wit, "step": i})
                continue
            a, b = canon(res), canon(ref)
            if a != b:
                prev = hist[i - 1] if i else None
                ctx.violate(f"history:result-depends-on-earlier-calls:{e}", f"step {i} {(f, e)} after {prev}: {first_diff(a, b)}", {**wit, "step": i})
            if res.get("stdout", "").strip() != ref.get("stdout", "").strip():
                ctx.violate("history:stdout-differs", f"step {i}: {res.get('stdout')[:200]!r} vs {ref.get('stdout')[:200]!r}", {**wit, "step": i})
        return results

    def across_seeds(self, f, e, seeds):
        ctx = self.ctx
        ctx.hit("across-hash-seeds-compared")
        ctx.hit("hash-seeds>=2") if len(seeds) >= 2 else None
        base = canon(self.single(f, e, seeds[0]))
        for s in seeds[1:]:
            ctx.case({"seeds": [seeds[0], s], "f": f, "e": e}, True, "hash-seeds")
            ctx.mon("C20.same_result_for_every_hash_seed")
            other = canon(self.single(f, e, s))
            if other != base:
                ctx.violate(f"hash-seed:result-differs:{e}", f"file {f} entry {e}: seed {seeds[0]} vs {s}: {first_diff(base, other)}", {"kind": "seeds", "file": f, "entry": e, "seeds": [seeds[0], s]})

    def exact(self, hist, seed):
        ctx = self.ctx
        ctx.hit("exact-reproducibility-run")
        ctx.case({"exact": hist, "s": seed}, True, "exact")
        ctx.mon("C20.same_history_same_seed_is_byte_identical")
        a = run_history(self.workdir, hist, seed)
        b = run_history(self.workdir, hist, seed)
        for i, (x, y) in enumerate(zip(a, b)):
            tx = TS.sub("", x.get("text", json.dumps(x, sort_keys=True)))
            ty = TS.sub("", y.get("text", json.dumps(y, sort_keys=True)))
            if tx != ty:
                ctx.violate("reproducibility:same-history-same-seed-differs", f"step {i} {hist[i]}: outputs of two fresh processes differ", {"kind": "history", "history": hist, "hashseed": seed, "exact": True})


def run(ctx):
    workdir = tempfile.mkdtemp(prefix="c20-", dir=core.WORK)
    try:
        models = write_pool(workdir)
        R = Runner(ctx, workdir, models)
        rng = ctx.rng
        pairs = list(itertools.product(range(N_POOL), repeat=2))
        epairs = list(itertools.product(ENTRIES, repeat=2))
        rot = int(ctx.seed) % len(epairs)
        jobs = []
        for i, (fa, fb) in enumerate(pairs):
            ea, eb = epairs[(i * 7 + rot) % len(epairs)]
            jobs.append(([[fa, ea], [fb, eb]], 0 if i % 3 else 1, "pairs"))
        # a file converted again after another one, by the same entry point (A, B, A)
        for i, (fa, fb) in enumerate([(0, 5), (5, 0), (1, 3), (2, 4)] if ctx.quick else [(a, b) for a in range(N_POOL) for b in range(N_POOL) if a != b][::3]):
            e = ["cpp", "py", "read", "read_cpp", "read_py"][i % 5] if not ctx.quick else ["cpp", "py"][i % 2]
            jobs.append(([[fa, e], [fb, e], [fa, e]], 0, "A-B-A"))
        # a read that fails half-way first (same entry point, or the base reader before a converter), then ordinary polar files
        for i, e in enumerate(ENTRIES):
            jobs.append(([[POISON, e], [[0, 1, 5][i % 3], e]], 0, "failed-read-then-polar-file"))
        jobs.append(([[POISON, "read"], [0, "cpp"], [1, "py"]], 0, "failed-read-then-polar-file"))
        for i, e in enumerate(ENTRIES if not ctx.quick else ["read", "cpp", "read_py"]):
            jobs.append(([[SYNTAX_POISON, e], [[1, 0, 5][i % 3], ENTRIES[(i + 1) % 5]], [[2, 3, 4][i % 3], e]], 0, "read-refused-by-the-grammar-then-other-files"))
        # the same amplitudes under another order of the event type, one conversion after the other
        for e in ("cpp", "py"):
            jobs.append(([[0, e], [REARRANGED, e]], 0, "same-amplitudes-other-event-order"))
        jobs.append(([[REARRANGED, "read_py"], [0, "cpp"], [REARRANGED, "cpp"]], 0, "same-amplitudes-other-event-order"))
        # the readers given the text instead of the file name, after reads of other files
        jobs.append(([[0, "read_cpp_text"], [1, "read_cpp_text"], [4, "read_py_text"]], 0, "text-argument"))
        jobs.append(([[2, "read_py"], [5, "read_py_text"], [3, "read_cpp_text"]], 1, "text-argument"))
        # a printing conversion (colours on) after string-returning ones: what is printed does not depend on them
        jobs.append(([[0, "cpp"], [1, "cpp_print"]], 0, "printed-after-returned"))
        # the same (long) file through two reader classes back to back
        jobs.append(([[4, "cpp"], [4, "py"]], 0, "same-long-file-two-readers"))
        jobs.append(([[4, "read_py"], [4, "read_cpp"], [4, "read"]], 0, "same-long-file-two-readers"))
        # ... and after a string-returning conversion that FAILED: what the next printing conversion sends to the terminal is still all of it
        jobs.append(([[POISON, "cpp"], [0, "cpp_print"]], 0, "printed-after-failed-returning"))
        jobs.append(([[POISON, "py"], [1, "py_print"], [2, "cpp_print"]], 0, "printed-after-failed-returning"))
        jobs.append(([[2, "py"], [3, "py_print"], [4, "cpp_print"]], 0, "printed-after-returned"))
        # an event type whose decaying particle comes from the library's special-particle table: first read of a process vs after another read
        jobs.append(([[0, "read"], [SPECIAL, "read"], [SPECIAL, "read_cpp"]], 0, "special-table-event-type"))
        jobs.append(([[1, "read_py"], [SPECIAL, "read_cpp"]], 1, "special-table-event-type"))
        jobs.append(([[SPECIAL, "read_py"], [2, "cpp"], [SPECIAL, "read"]], 0, "special-table-event-type"))
        # a user's reader class derived from a converter (or from the base reader): a cartesian file, then polar ones; files with other resonances
        jobs.append(([[2, "read_user_cpp"], [0, "read_user_cpp"], [1, "read_user_cpp"]], 0, "user-reader-class"))
        jobs.append(([[4, "read_user_py"], [5, "read_user_py"]], 1, "user-reader-class"))
        jobs.append(([[2, "read_user_base"], [3, "read_user_base"], [0, "read_user_cpp"]], 0, "user-reader-class"))
        for e in (["py", "cpp"] if ctx.quick else ENTRIES):
            jobs.append(([[3, e], [1, e]], 0, "spline-then-no-constants"))      # file 3 has spline constants, file 1 has no constant line at all
        if not ctx.quick:
            for i, tr in enumerate(itertools.permutations(range(3), 3)):
                jobs.append(([[f, ENTRIES[(i + k) % 5]] for k, f in enumerate(tr)], 0, "triples"))
            for t in itertools.permutations([2, 0, 4, 1], 3):
                jobs.append(([[f, rng.choice(ENTRIES)] for f in t], rng.choice([0, 1, 2]), "triples"))
        r2 = random.Random(f"C20-random-{ctx.seed}")
        for _ in range(ctx.pick(6, 120)):
            n = r2.choice([3, 3, 4, 6]) if not ctx.quick else r2.choice([3, 4])
            jobs.append(([[r2.randrange(N_POOL), r2.choice(ENTRIES)] for _ in range(n)], r2.choice([0, 1] if ctx.quick else [0, 1, 2, 3, 7, 42]), "random"))
        for i, (hist, seed, wl) in enumerate(jobs):
            if not ctx.mine(i):
                continue
            R.check(hist, seed, wl)
            if len(ctx.violations) >= ctx.max_violations:
                return
        ctx.note("ordered_file_pairs_run", sum(1 for i in range(len(pairs)) if ctx.mine(i)))
        seeds = [0, 1] if ctx.quick else [0, 1, 2, 3, 7, 42, 123, rng.randrange(10**6)]
        combos = [(f, e) for f in range(N_POOL) for e in ("cpp", "py", "read")]
        for i, (f, e) in enumerate(combos):
            if ctx.mine(i) and (not ctx.quick or i % 2 == 0):
                R.across_seeds(f, e, seeds)
        ex = [([[0, "cpp"], [1, "py"]], 0), ([[2, "py"], [3, "cpp"], [1, "read"]], 1), ([[4, "cpp"], [4, "py"]], 5), ([[5, "py"], [0, "cpp"]], 0)]
        for i, (h, s) in enumerate(ex):
            if i % ctx.nshards == ctx.shard:
                R.exact(h, s)
        if ctx.shard == 0:
            ctx.sample({"history": jobs[0][0], "hashseed": jobs[0][1], "pool_file_0": open(os.path.join(workdir, "pool0.txt")).read()[:1200]})
    finally:
        shutil.rmtree(workdir, ignore_errors=True)


def finish(merged):
    if merged["notes"].get("ordered_file_pairs_run", 0) >= N_POOL * N_POOL:
        merged["classes"]["all-ordered-file-pairs"] = 1


def replay(ctx, w):
    workdir = tempfile.mkdtemp(prefix="c20-", dir=core.WORK)
    try:
        models = write_pool(workdir)
        R = Runner(ctx, workdir, models)
        if w["kind"] == "history":
            if w.get("exact"):
                R.exact(w["history"], w["hashseed"])
            else:
                R.check(w["history"], w["hashseed"], "replay")
        else:
            R.across_seeds(w["file"], w["entry"], w["seeds"])
    finally:
        shutil.rmtree(workdir, ignore_errors=True)
