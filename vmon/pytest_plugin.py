"""pytest plugin (W-tests): arms the vmon contracts inside the repository's *own* test run.

  cd /repo && PYTHONPATH=/repo/src:/verif:/verif/.deps VMON_WTESTS_OUT=<json> /venv/bin/python -m pytest -p vmon.pytest_plugin ...

A contract that fires there is either too strict or a defect the tests do not assert; the witness (test id +
contract message) is written to VMON_WTESTS_OUT and judged by the property's check (thorough tier)."""
from __future__ import annotations

import json
import os

_records: list = []
_current = [None]


def pytest_configure(config):
    from vmon import contracts  # noqa: PLC0415

    groups = os.environ.get("VMON_WTESTS_GROUPS", "parse,parser_chains,conj,flatten,chain_to_dict,mode_to_dict,to_string,descriptor_format,list_structure").split(",")
    contracts.arm(*[g for g in groups if g])


def pytest_runtest_setup(item):
    _current[0] = item.nodeid


def pytest_runtest_teardown(item, nextitem):
    from vmon import contracts  # noqa: PLC0415

    for v in contracts.drain():
        _records.append({**v, "test": item.nodeid, "detail": repr(v.get("detail"))[:1500]})


def pytest_sessionfinish(session, exitstatus):
    from vmon import contracts  # noqa: PLC0415

    out = os.environ.get("VMON_WTESTS_OUT")
    if out:
        with open(out, "w") as f:
            json.dump({"counts": dict(contracts.COUNTS), "violations": _records, "exitstatus": int(exitstatus)}, f, indent=1, default=repr)
