"""Canonical snapshot of the public queries of a DecFileParser, and comparison with the reference semantics."""
from __future__ import annotations

import contextlib
import io
import warnings

from . import declang as L

GLOBAL_QUERIES = ["dict_aliases", "dict_charge_conjugates", "dict_definitions", "dict_decays2copy", "list_charge_conjugate_decays",
                  "get_particle_property_definitions", "dict_pythia_definitions", "dict_jetset_definitions", "dict_lineshape_settings",
                  "list_lineshapePW_definitions", "global_photos_flag", "dict_model_aliases"]


def make_parser(text=None, files=None, user_models=(), include_cc=True, load_calls=None, grammar_first=False):
    """Construct and parse with the real code; warnings are recorded, not raised."""
    from decaylanguage import DecFileParser  # noqa: PLC0415

    p = DecFileParser(*files) if files else DecFileParser.from_string(text)
    if grammar_first is True:      # read-only accessors used before the models are registered
        p.grammar()
        p.grammar_info()
    if load_calls:
        for k, call in enumerate(load_calls):
            p.load_additional_decay_models(*call)
            if grammar_first is not True and grammar_first is not False and grammar_first == k + 1:
                p.grammar()        # ... or between two registrations (grammar_first = number of calls made before)
                p.grammar_info()
    elif user_models:
        p.load_additional_decay_models(*user_models)
    with warnings.catch_warnings(record=True) as w:
        warnings.simplefilter("always")
        p.parse(include_cc) if include_cc is not True else p.parse()
    return p, [str(x.message) for x in w]


_PARTS_DIR: list = []


def parse_as_part_files(ctx, text, user_models=(), prefer=("Define", "ModelAlias", "Alias", "ChargeConj", "CDecay", "CopyDecay"), include_cc=True):
    """The same text handed to the file constructor as 1..3 files given in order -- as `str` or as `pathlib.Path` objects --, cut between top-level
    statements (preferably right in front of a declaration), every part but the last ending without a line end or in an unterminated comment line.
    -> (parser, warnings, witness details).  File names are not in alphabetical order."""
    import os  # noqa: PLC0415
    import pathlib  # noqa: PLC0415

    from . import core, layout  # noqa: PLC0415

    rng = ctx.rng
    if not _PARTS_DIR:
        d = os.path.join(os.environ.get("VMON_RUN_DIR") or core.WORK, f"parts-{os.getpid()}")
        os.makedirs(d, exist_ok=True)
        _PARTS_DIR.append(d)
    its = layout.segments(text, L.published_models(), user_models)
    bounds = layout.top_level_boundaries(its)
    k = min(rng.choice([1, 2, 2, 3]), len(bounds) + 1)
    cuts = []
    if k > 1:
        liked = [b for b in bounds if b + 1 < len(its) and its[b + 1][0] == "T" and its[b + 1][1] in prefer]
        while len(cuts) < k - 1:
            pool = [b for b in (liked if (liked and rng.random() < 0.6) else bounds) if b not in cuts]
            if not pool:
                break
            cuts.append(rng.choice(pool))
        cuts.sort()
    parts, prev = [], 0
    for c in [*cuts, None]:
        parts.append(layout.render(its[prev:c + 1] if c is not None else its[prev:]))
        prev = (c + 1) if c is not None else None
    for i in range(len(parts) - 1):
        parts[i] = parts[i].rstrip("\r\n") + rng.choice(["", "\n# end of this part", "\n#", "  # closing remark"])
    names_ = rng.sample(["zz_generic.dec", "user.dec", "part10.dec", "part2.dec", "Alpha.DEC", "b_overrides.dec"], len(parts))
    paths = []
    for nm, part in zip(names_, parts):
        path = os.path.join(_PARTS_DIR[0], nm)
        with open(path, "w", encoding="utf-8", newline="") as fh:
            fh.write(part)
        paths.append(pathlib.Path(path) if rng.random() < 0.5 else path)
    ctx.hit("file-constructor:%d-part-files" % len(parts))
    if any(isinstance(x, pathlib.Path) for x in paths):
        ctx.hit("file-constructor:pathlib-path-arguments")
    p, w = make_parser(None, paths, user_models, include_cc)
    return p, w, {"part_files": parts, "given_as": [type(x).__name__ for x in paths]}


def parse_under_error_filter(text, user_models=(), include_cc=True):
    """The same text parsed by a fresh object while the user's warning filter turns warnings into errors (`-W error`, pytest's filterwarnings = error).
    -> parser, or None when the library (legitimately) warned and the warning surfaced as the exception the user asked for: then nothing is judged.
    What must not happen is a *silently different* result."""
    from decaylanguage import DecFileParser  # noqa: PLC0415

    p = DecFileParser.from_string(text)
    if user_models:
        p.load_additional_decay_models(*user_models)
    REFUSED.clear()
    with warnings.catch_warnings():
        warnings.simplefilter("error")
        try:
            p.parse(include_cc) if include_cc is not True else p.parse()
        except Warning:
            REFUSED.append(p)
            return None
        except Exception as e:  # noqa: BLE001
            # lark wraps exceptions raised inside its visitors / transformers
            c = e
            while c is not None:
                if isinstance(c, Warning) or isinstance(getattr(c, "orig_exc", None), Warning):
                    REFUSED.append(p)
                    return None
                c = c.__cause__ or c.__context__
            raise
    return p


REFUSED: list = []      # the object whose parse() was just refused (a warning surfaced as an exception), for `answers_after_a_refused_parse`


def answers_after_a_refused_parse(p, exp):
    """A parse() that ended with an exception has not parsed the file.  If the object answers questions about decay tables all the same (instead of
    saying that it is not parsed), the answers are still the file's: judged only when given.  -> list of (mechanism, message)"""
    try:
        with warnings.catch_warnings():
            warnings.simplefilter("ignore")
            p.list_decay_mother_names()
    except Exception:  # noqa: BLE001   the object says it has nothing to answer with: fine
        return None
    try:
        with warnings.catch_warnings():
            warnings.simplefilter("ignore")
            return compare_tables(p, exp)
    except Exception as e:  # noqa: BLE001
        return [("tables:query-raised", f"{type(e).__name__}: {e}")]


def parse_after_an_interrupted_parse(ctx, text, user_models=(), include_cc=True):
    """A fresh object whose first parse() is abandoned at a random line of the library's own code (trace.Failpoint: an exception that does not derive
    from Exception, as when the user presses Ctrl-C), and which is then parsed again in the ordinary way.  -> parser, or None when the second
    parse() raised (a loud failure after an interruption is not judged; a quietly different table is)."""
    from decaylanguage import DecFileParser  # noqa: PLC0415

    from . import trace  # noqa: PLC0415

    def fresh():
        q = DecFileParser.from_string(text)
        if user_models:
            q.load_additional_decay_models(*user_models)
        return q

    def parse(q):
        with warnings.catch_warnings():
            warnings.simplefilter("ignore")
            q.parse(include_cc) if include_cc is not True else q.parse()

    fp = trace.Failpoint.get()
    _, n = fp.count(parse, fresh())
    q = fresh()
    status, where = fp.inject(ctx.rng.randint(1, max(1, n)), parse, q)
    ctx.hit("parse-abandoned-at-a-random-line:" + status)
    try:
        parse(q)
    except Exception:  # noqa: BLE001
        ctx.hit("parse-again-after-an-abandoned-parse:raised:not-judged")
        return None
    ctx.hit("parse-again-after-an-abandoned-parse:answered")
    return q


def params_canon(mp):
    return [] if (mp == "" or mp is None) else list(mp)


def mode_tuple(d):
    return (d["bf"], tuple(d["fs"]), d["model"], tuple(params_canon(d["model_params"])))


def table_of(p, m):
    """Lines of mother m through the observation points named by C01."""
    modes = p.list_decay_modes(m)
    chain = p.build_decay_chains(m, stable_particles=[x for fs in modes for x in fs])
    rows = chain[m]
    out = []
    for fs, d in zip(modes, rows):
        out.append({"bf": d["bf"], "fs": list(d["fs"]), "fs_modes": list(fs), "model": d["model"], "params": params_canon(d["model_params"])})
    if len(modes) != len(rows):
        out.append({"bf": None, "fs": ["<list_decay_modes and build_decay_chains disagree on the number of lines>"], "fs_modes": [], "model": "", "params": []})
    return out


def photos_flags(p, m):
    """PHOTOS flag per line, read from the printed table (the observation point C01 names)."""
    buf = io.StringIO()
    with contextlib.redirect_stdout(buf):
        p.print_decay_modes(m, print_model=True, display_photos_keyword=True)
    return buf.getvalue()


def _rows_private(p, m, with_photos):
    return [mode_tuple(p._decay_mode_details(t, with_photos)) for t in p._find_decay_modes(m)]


def _rows_public(p, m, with_photos):
    """The same rows through public queries only (used when the private per-line helpers are renamed or removed by a refactoring)."""
    modes = p.list_decay_modes(m)
    chain = p.build_decay_chains(m, stable_particles=[x for fs in modes for x in fs])
    rows = [(d["bf"], tuple(fs), d["model"], tuple(params_canon(d["model_params"]))) for fs, d in zip(modes, chain[m])]
    if with_photos and rows:
        # PHOTOS flags from the printed table: rows are printed by decreasing branching fraction, file order among equal values
        printed = [ln for ln in photos_flags(p, m).splitlines() if ln.strip()]
        order = sorted(range(len(rows)), key=lambda i: -rows[i][0])
        if len(printed) == len(rows):
            flags = {}
            for row, i in zip(printed, order):
                toks = row.rstrip().rstrip(";").split()
                k = 1 + len(rows[i][1])
                flags[i] = len(toks) > k and toks[k] == "PHOTOS"
            rows = [(r[0], r[1], ("PHOTOS " if flags.get(i) else "") + r[2], r[3]) for i, r in enumerate(rows)]
    return rows


_mode = {"private": None}


def tables_of_mother(p, m):
    """Rows of one mother without the PHOTOS keyword."""
    if _mode["private"] is not False:
        try:
            rows = _rows_private(p, m, False)
            _mode["private"] = True
            return rows
        except (AttributeError, TypeError):
            _mode["private"] = False
    return _rows_public(p, m, False)


def tables(p, with_photos=True):
    """{mother: [(bf, fs, model-with-PHOTOS, params)]}: fast path through the per-line detail helper, public queries otherwise."""
    out = {}
    for m in p.list_decay_mother_names():
        if _mode["private"] is not False:
            try:
                rows = _rows_private(p, m, with_photos)
                _mode["private"] = True
            except (AttributeError, TypeError):
                _mode["private"] = False
                rows = _rows_public(p, m, with_photos)
        else:
            rows = _rows_public(p, m, with_photos)
        out.setdefault(m, rows) if m not in out else out.__setitem__(m + "#dup", rows)
    return out


def globals_of(p):
    g = {}
    for q in GLOBAL_QUERIES:
        try:
            with warnings.catch_warnings():
                warnings.simplefilter("ignore")
                v = getattr(p, q)()
            g[q] = L.typed(int(v) if q == "global_photos_flag" else v)
        except Exception as e:  # noqa: BLE001
            g[q] = {"raises": type(e).__name__}
    return g


def full(p, chains_for=(), expand_for=(), print_for=()):
    """Everything a user can ask, canonical and JSON-able."""
    snap = {"mothers": list(p.list_decay_mother_names()), "n": p.number_of_decays, "tables": {k: [list(map(_j, r)) for r in v] for k, v in tables(p).items()},
            "modes": {m: p.list_decay_modes(m) for m in dict.fromkeys(p.list_decay_mother_names())}, "globals": globals_of(p)}
    for m in chains_for:
        try:
            snap.setdefault("chains", {})[m] = p.build_decay_chains(m)
        except Exception as e:  # noqa: BLE001
            snap.setdefault("chains", {})[m] = {"raises": type(e).__name__}
    for m in expand_for:
        try:
            snap.setdefault("expand", {})[m] = p.expand_decay_modes(m)
        except Exception as e:  # noqa: BLE001
            snap.setdefault("expand", {})[m] = {"raises": type(e).__name__}
    for m in print_for:
        try:
            snap.setdefault("print", {})[m] = photos_flags(p, m)
        except Exception as e:  # noqa: BLE001
            snap.setdefault("print", {})[m] = {"raises": type(e).__name__}
    return snap


def _j(x):
    return list(x) if isinstance(x, tuple) else x


def scramble(x):
    """Edit a returned value in place, the way a caller does who believes the value is his own: elements of lists are
    edited, the list reversed and extended; dictionaries lose a key, get one, and have their values edited."""
    if isinstance(x, list):
        for y in x:
            scramble(y)
        x.reverse()
        x.append("<edited>")
    elif isinstance(x, dict):
        for k in list(x):
            scramble(x[k])
        if x:
            x.pop(next(iter(x)))
        x["<edited>"] = ["<edited>"]
    elif isinstance(x, set):
        x.clear()
    return x


def edit_returned_values(p, mothers=(), expand=False):
    """Ask every public query once and edit what it returned.  A later answer of the parser must not depend on it.
    -> number of values edited"""
    n = 0
    qs = [(q, ()) for q in GLOBAL_QUERIES if q != "global_photos_flag"] + [("list_decay_mother_names", ())]
    for m in mothers:
        qs += [("list_decay_modes", (m,)), ("build_decay_chains", (m,))]
        if expand:
            qs.append(("expand_decay_modes", (m,)))
    for q, a in qs:
        try:
            with warnings.catch_warnings():
                warnings.simplefilter("ignore")
                v = getattr(p, q)(*a)
        except Exception:  # noqa: BLE001, S112
            continue
        scramble(v)
        n += 1
    return n


class _RaisingNames(list):
    """The caller's own collection of names, which fails after a few uses (a lazily loaded list, a broken proxy)."""

    def __init__(self, names_, uses):
        super().__init__(names_)
        self.left = uses

    def _use(self):
        self.left -= 1
        if self.left < 0:
            raise OSError("harness: the caller's collection failed while it was read")

    def __contains__(self, x):
        self._use()
        return super().__contains__(x)

    def __iter__(self):
        self._use()
        return super().__iter__()


class _FailingStream(io.StringIO):
    def __init__(self, ok_writes):
        super().__init__()
        self.left = ok_writes

    def write(self, s):
        if self.left <= 0:
            raise OSError("harness: the caller's output stream failed")
        self.left -= 1
        return super().write(s)


import random as _random  # noqa: E402

UPSET_RATE = 0.15
UPSET_COUNT = [0]
_upset_rng = _random.Random("snapshot-upset")


def upset(p, rng=None):
    """Things that go wrong around a parsed object without being the library's fault -- questions it rightly refuses (unknown particle, contradictory
    print options), a caller's stream or collection that fails half-way, a call abandoned at a random line (Ctrl-C) -- each followed by an ordinary
    successful question.  None of it may change any later answer.  Exceptions are swallowed: what is refused is not judged here."""
    from . import trace  # noqa: PLC0415

    rng = rng or _upset_rng
    UPSET_COUNT[0] += 1
    try:
        with warnings.catch_warnings():
            warnings.simplefilter("ignore")
            ms = list(p.list_decay_mother_names())
    except Exception:  # noqa: BLE001
        return
    # chain questions only for mothers whose (acyclic) unfolding is small: generated tables may nest deeply or refer to each other
    from . import chains as CH  # noqa: PLC0415
    from . import contracts as CT  # noqa: PLC0415

    try:
        with warnings.catch_warnings():
            warnings.simplefilter("ignore")
            T = {m: [{"fs": list(fs)} for fs in p.list_decay_modes(m)] for m in ms}
    except Exception:  # noqa: BLE001
        return
    memo = {}
    small = [m for m in ms if CT._reach_acyclic(T, m) and CH.ref_sizes(T, m, memo)[0] <= 200]
    m0 = small[: 3]
    acts = ["print-to-failing-stream", "print-unknown", "chains-unknown-with-stable-set", "chains-with-failing-collection", "expand-unknown", "modes-unknown",
            "print-contradictory", "abandoned-chains", "abandoned-print"]
    for act in rng.sample(acts, rng.randint(2, 4)):
        m = rng.choice(ms) if ms else "NoSuchParticle"
        if act in ("chains-with-failing-collection", "abandoned-chains"):
            if not small:
                continue
            m = rng.choice(small)
        try:
            with warnings.catch_warnings():
                warnings.simplefilter("ignore")
                if act == "print-to-failing-stream":
                    with contextlib.redirect_stdout(_FailingStream(rng.randint(0, 3))):
                        p.print_decay_modes(m, **rng.choice([{}, {"normalize": True}, {"scale": 0.5}, {"display_photos_keyword": False}]))
                elif act == "print-unknown":
                    with contextlib.redirect_stdout(io.StringIO()):
                        p.print_decay_modes("NoSuchParticle")
                elif act == "chains-unknown-with-stable-set":
                    p.build_decay_chains("NoSuchParticle", stable_particles=rng.sample(ms, min(len(ms), 3)))
                elif act == "chains-with-failing-collection":
                    p.build_decay_chains(m, stable_particles=_RaisingNames(rng.sample(ms, min(len(ms), 2)), rng.randint(0, 4)))
                elif act == "expand-unknown":
                    p.expand_decay_modes("NoSuchParticle")
                elif act == "modes-unknown":
                    p.list_decay_modes("NoSuchParticle")
                    p.list_decay_modes("NoSuchPDGName", pdg_name=True)
                elif act == "print-contradictory":
                    with contextlib.redirect_stdout(io.StringIO()):
                        p.print_decay_modes(m, normalize=True, scale=0.5)
                else:
                    fp = trace.Failpoint.get()

                    def q(m=m, act=act):
                        if act == "abandoned-chains":
                            return p.build_decay_chains(m, stable_particles=ms[:2])
                        with contextlib.redirect_stdout(io.StringIO()):
                            return p.print_decay_modes(m, normalize=True)

                    _, n = fp.count(q)
                    fp.inject(rng.randint(1, max(1, n)), q)
        except Exception:  # noqa: BLE001, S110
            pass
    # ... and ordinary questions right afterwards (a plain chain for the first mothers), as a user carries on
    for m in m0:
        try:
            with warnings.catch_warnings():
                warnings.simplefilter("ignore")
                p.build_decay_chains(m)
        except Exception:  # noqa: BLE001, S110   (cyclic tables etc.: not this monitor's business)
            pass


def compare_tables(p, exp, check_derived=True):
    """Observed decay tables vs reference semantics -> list of (mechanism, message)."""
    out = []
    upset_done = False
    if _upset_rng.random() < UPSET_RATE:
        upset(p)
        upset_done = True
    mothers = list(p.list_decay_mother_names())
    n = p.number_of_decays
    nblock = len(exp["order"])
    if mothers[:nblock] != exp["order"]:
        out.append(("tables:mothers-order", f"mothers {mothers[:nblock + 2]} expected first {exp['order']}"))
        return out
    rest = mothers[nblock:]
    if check_derived:
        if sorted(rest) != sorted(exp["derived"]):
            out.append(("tables:derived-set", f"derived tables {sorted(rest)} expected {sorted(exp['derived'])}"))
            return out
        if n != nblock + len(exp["derived"]):
            out.append(("tables:count", f"number_of_decays {n} expected {nblock + len(exp['derived'])}"))
    allexp = dict(exp["tables"])
    if check_derived:
        allexp.update(exp["derived"])
    if upset_done and check_derived:
        # right after the things that went wrong, before anything is printed successfully: the chain question (any mother with lines)
        out.extend(chain_route(p, allexp, limit=3, any_mother=True))
        if out:
            return out
    obs = tables(p)
    for m, lines in allexp.items():
        got = obs.get(m)
        kind = "derived" if m in exp["derived"] else "block"
        if got is None:
            out.append((f"tables:{kind}:missing", f"no table for {m}"))
            continue
        want = [L.line_tuple(ln) for ln in lines]
        if len(got) != len(want):
            out.append((f"tables:{kind}:line-count", f"{m}: {len(got)} lines, expected {len(want)}"))
            continue
        for i, (g, w) in enumerate(zip(got, want)):
            if L.typed(g) != L.typed(w):
                field = next((f for f, a, b in zip(("bf", "fs", "model", "params"), g, w) if L.typed(a) != L.typed(b)), "?")
                if field == "model" and g[2].replace("PHOTOS ", "") == w[2].replace("PHOTOS ", ""):
                    field = "photos"
                out.append((f"tables:{kind}:{field}", f"{m} line {i}: got {g!r} expected {w!r}"))
                break
    if not out:
        out.extend(pdg_name_route(p, [m for m in allexp if m in obs]))
    if not out and check_derived:
        out.extend(chain_route(p, allexp))
    if not out:
        out.extend(print_route(p, allexp))
    return out


def print_route(p, allexp, limit=3):
    """The same lines as print_decay_modes shows them, with the model column: the model of every row is the line's model, preceded by the PHOTOS
    keyword exactly when the line has it and the keyword is asked for (rows come by decreasing branching fraction, file order among equal values)."""
    out = []
    todo = [m for m, lines in allexp.items() if lines][:limit]
    for m in todo:
        lines = allexp[m]
        order = sorted(range(len(lines)), key=lambda i: -(L.num(lines[i]["bf"]) if isinstance(lines[i]["bf"], str) else lines[i]["bf"]))
        for show in (False, True):
            PRINT_ROUTE_COUNT[0] += 1
            buf = io.StringIO()
            try:
                with warnings.catch_warnings():
                    warnings.simplefilter("ignore")
                    with contextlib.redirect_stdout(buf):
                        p.print_decay_modes(m, print_model=True, display_photos_keyword=show)
            except Exception as e:  # noqa: BLE001
                out.append(("tables:as-printed:raised", f"print_decay_modes({m!r}, print_model=True, display_photos_keyword={show}) raised {type(e).__name__}: {e}"))
                break
            rows = [ln for ln in buf.getvalue().splitlines() if ln.strip()]
            if len(rows) != len(lines):
                out.append(("tables:as-printed:row-count", f"{m}: {len(rows)} printed rows for {len(lines)} lines"))
                break
            for row, i in zip(rows, order):
                ln = lines[i]
                toks = row.rstrip().rstrip(";").split()
                k = 1 + len(ln["fs"])
                want = (["PHOTOS"] if (ln["photos"] and show) else []) + [ln["model"]]
                if toks[1:k] != list(ln["fs"]) or toks[k:k + len(want)] != want:
                    out.append(("tables:as-printed:model-column", f"{m} (display_photos_keyword={show}): row {row!r} expected daughters {ln['fs']} then {want}"))
                    break
            if out:
                break
    return out


PRINT_ROUTE_COUNT = [0]


def chain_route(p, allexp, limit=4, max_size=400, any_mother=False):
    """The same tables seen through the other documented query: build_decay_chains(M) nests, below every daughter that has a table -- written, copied
    or conjugated alike --, that daughter's table.  Judged for a few mothers whose (acyclic) unfolding is small."""
    from . import chains as CH  # noqa: PLC0415
    from . import contracts as CT  # noqa: PLC0415

    out = []
    T = {m: [{"bf": L.num(ln["bf"]) if isinstance(ln["bf"], str) else ln["bf"], "fs": list(ln["fs"]), "model": ln["model"], "model_params": ln["params"]} for ln in lines]
         for m, lines in allexp.items()}
    memo = {}
    # mothers with a table-carrying daughter first: those are the ones for which the route says more than the flat queries
    cands = sorted(T, key=lambda m: -sum(1 for ln in T[m] for x in ln["fs"] if x in T))
    done = 0
    for m in cands:
        if done >= limit:
            break
        if not T[m] or (not any_mother and not any(x in T for ln in T[m] for x in ln["fs"])) or not CT._reach_acyclic(T, m):
            continue
        size, npaths = CH.ref_sizes(T, m, memo)
        if size > max_size:
            continue
        done += 1
        CHAIN_ROUTE_COUNT[0] += 1
        try:
            with warnings.catch_warnings():
                warnings.simplefilter("ignore")
                got = p.build_decay_chains(m)
        except Exception as e:  # noqa: BLE001
            out.append(("tables:through-the-chain-query:raised", f"build_decay_chains({m!r}) raised {type(e).__name__}: {e}"))
            continue
        exp = CH.ref_unfold(T, m, set())
        try:
            same = L.typed(CT._norm_chain(got)) == L.typed(CT._norm_chain(exp))
        except Exception:  # noqa: BLE001
            same = False
        if not same:
            out.append(("tables:through-the-chain-query:differs", f"build_decay_chains({m!r}) = {str(got)[:600]} expected the nesting of the tables {str(exp)[:600]}"))
    return out


CHAIN_ROUTE_COUNT = [0]


def pdg_name_route(p, mothers, limit=6):
    """The documented other way to name a mother: by its PDG name (`pdg_name=True`).  It must answer what the EvtGen name answers."""
    from . import names as N  # noqa: PLC0415

    out = []
    evt2pdg = N.tables()["evt2pdg"]
    todo = [m for m in mothers if evt2pdg.get(m)][:limit]
    for m in todo:
        for pdg in evt2pdg[m][:1]:
            ROUTE_COUNT[0] += 1
            try:
                with warnings.catch_warnings():
                    warnings.simplefilter("ignore")
                    a, b = p.list_decay_modes(m), p.list_decay_modes(pdg, pdg_name=True)
                    pa, pb = io.StringIO(), io.StringIO()
                    with contextlib.redirect_stdout(pa):
                        p.print_decay_modes(m, print_model=True, display_photos_keyword=True)
                    with contextlib.redirect_stdout(pb):
                        p.print_decay_modes(pdg, pdg_name=True, print_model=True, display_photos_keyword=True)
            except Exception as e:  # noqa: BLE001
                out.append(("tables:by-pdg-name:raised", f"{m} asked as {pdg!r} with pdg_name=True: {type(e).__name__}: {e}"))
                continue
            if pdg != m and pdg not in mothers:
                # ... and the PDG spelling is a name of its own only with the flag: without it, it names no table of this file
                try:
                    with warnings.catch_warnings():
                        warnings.simplefilter("ignore")
                        c = p.list_decay_modes(pdg)
                except Exception:  # noqa: BLE001   (the library's not-found error)
                    c = None
                if c is not None:
                    out.append(("tables:by-pdg-name:spelling-answers-without-the-flag", f"list_decay_modes({pdg!r}) = {c!r} although no table of the file carries that name (asked with pdg_name=True before)"))
            if a != b:
                out.append(("tables:by-pdg-name:differs", f"list_decay_modes({pdg!r}, pdg_name=True) = {b!r}, list_decay_modes({m!r}) = {a!r}"))
            elif pa.getvalue() != pb.getvalue():
                out.append(("tables:by-pdg-name:printed-table-differs", f"print_decay_modes({pdg!r}, pdg_name=True) prints {pb.getvalue()!r}, by EvtGen name {pa.getvalue()!r}"))
    return out


ROUTE_COUNT = [0]


def compare_globals(p, exp):
    out = []
    g = {}

    def q(name):
        try:
            with warnings.catch_warnings():      # the library warns legitimately (e.g. re-set PHOTOS flag); warnings are not judged
                warnings.simplefilter("ignore")
                return True, getattr(p, name)()
        except Exception as e:  # noqa: BLE001
            return False, e

    checks = [("dict_aliases", exp["aliases"]), ("dict_charge_conjugates", exp["cc"]), ("dict_definitions", exp["defs"]),
              ("dict_decays2copy", exp["copy"]), ("list_charge_conjugate_decays", exp["cdecay"]), ("dict_pythia_definitions", exp["pythia"]),
              ("dict_jetset_definitions", exp["jetset"]), ("list_lineshapePW_definitions", [(a, b) for a, b in exp["lspw"]]),
              ("dict_model_aliases", exp["model_aliases"])]
    for name, want in checks:
        ok, v = q(name)
        g[name] = v
        if not ok:
            out.append((f"globals:{name}:raised", f"{name}() raised {type(v).__name__}: {v}"))
        elif L.typed(v) != L.typed(want):
            out.append((f"globals:{name}", f"{name}() = {v!r} expected {want!r}"))
        elif isinstance(want, dict) and list(v) != list(want):
            pass  # key order is not part of the statement
    ok, v = q("global_photos_flag")
    if not ok:
        out.append(("globals:global_photos_flag:raised", str(v)))
    elif int(v) != exp["photos"]:
        out.append(("globals:global_photos_flag", f"global_photos_flag() = {int(v)} expected {exp['photos']}"))
    ok, v = q("dict_lineshape_settings")
    if exp["ls_raises"]:
        if ok:
            out.append(("globals:lineshape-repeat-not-refused", f"repeated lineshape setting silently accepted: {v!r}"))
    elif not ok:
        out.append(("globals:dict_lineshape_settings:raised", f"{type(v).__name__}: {v}"))
    elif L.typed(v) != L.typed(exp["ls"]):
        out.append(("globals:dict_lineshape_settings", f"dict_lineshape_settings() = {v!r} expected {exp['ls']!r}"))
    ok, v = q("get_particle_property_definitions")
    if exp["particle_raises"]:
        pass  # the reference width is unknown: nothing is promised
    elif not ok:
        out.append(("globals:particle:raised", f"{type(v).__name__}: {v}"))
    else:
        import math  # noqa: PLC0415

        bad = set(v) != set(exp["particle"])
        for k, w in exp["particle"].items():
            gv = v.get(k)
            if gv is None or type(gv.get("mass")) is not float or gv["mass"] != w["mass"] or type(gv.get("width")) is not float \
                    or not math.isclose(gv["width"], w["width"], rel_tol=1e-12, abs_tol=0.0):
                bad = True
        if bad:
            out.append(("globals:particle", f"get_particle_property_definitions() = {v!r} expected {exp['particle']!r}"))
    return out
