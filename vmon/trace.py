"""sys.monitoring based observation: anchor coverage (did the monitors see the mechanism run?) and
logical step budgets (turn a diverging loop into a Diverged exception inside the code under test)."""
from __future__ import annotations

import importlib
import sys
import types

from .core import Diverged

mon = sys.monitoring
COV_TOOL = 4
BUD_TOOL = 5


def resolve(spec: str):
    """'pkg.mod:Qual.name' -> list of code objects (function + nested functions)."""
    modname, qual = spec.split(":")
    obj = importlib.import_module(modname)
    for part in qual.split("."):
        obj = getattr(obj, part)
    if isinstance(obj, (classmethod, staticmethod)):
        obj = obj.__func__
    if isinstance(obj, property):
        obj = obj.fget
    obj = getattr(obj, "__func__", obj)
    while hasattr(obj, "__wrapped__"):
        obj = obj.__wrapped__
    code = obj.__code__
    out = [code]
    stack = [code]
    while stack:
        c = stack.pop()
        for k in c.co_consts:
            if isinstance(k, types.CodeType):
                out.append(k)
                stack.append(k)
    return out


def _lines(code) -> set:
    return {ln for (_, _, ln) in code.co_lines() if ln is not None and ln != code.co_firstlineno}


class Tracer:
    """PY_START counts and first-hit LINE coverage of the anchored functions."""

    def __init__(self, anchors):
        self.anchors = list(anchors)
        self.codes = {}      # code -> anchor name
        self.calls = {}
        self.hit = {}
        self.total = {}
        self.unresolved = set()
        self.active = False

    def start(self):
        if not self.anchors:
            return
        try:
            mon.use_tool_id(COV_TOOL, "vmon-cov")
        except ValueError:
            return
        self.active = True
        for spec in self.anchors:
            try:
                codes = resolve(spec)
            except Exception:  # noqa: BLE001  anchor renamed / removed in a refactoring: reported as unresolved, not as "never reached"
                self.calls[spec] = 0
                self.hit[spec] = set()
                self.total[spec] = 0
                self.unresolved.add(spec)
                continue
            self.calls[spec] = 0
            self.hit[spec] = set()
            self.total[spec] = len(set().union(*[_lines(c) for c in codes]))
            for c in codes:
                self.codes[c] = spec
            self.codes[codes[0]] = spec
            self._main = getattr(self, "_main", {})
            self._main[codes[0]] = spec

        def on_start(code, off):
            spec = self._main.get(code)
            if spec is not None:
                self.calls[spec] += 1

        def on_line(code, line):
            spec = self.codes.get(code)
            if spec is not None:
                self.hit[spec].add(line)
            return mon.DISABLE

        mon.register_callback(COV_TOOL, mon.events.PY_START, on_start)
        mon.register_callback(COV_TOOL, mon.events.LINE, on_line)
        for c in self.codes:
            ev = mon.events.LINE | (mon.events.PY_START if c in self._main else 0)
            mon.set_local_events(COV_TOOL, c, ev)

    def stop(self):
        if self.active:
            for c in self.codes:
                mon.set_local_events(COV_TOOL, c, 0)
            mon.free_tool_id(COV_TOOL)
            self.active = False

    def report(self):
        return {s: {"calls": self.calls.get(s, 0), "lines_hit": sorted(self.hit.get(s, ())), "lines_total": self.total.get(s, 0),
                    "resolved": s not in self.unresolved}
                for s in self.anchors}


class Budget:
    """Counts LINE events of the given functions while armed; beyond the budget raises Diverged
    *inside* the code under test, so a loop that would spin forever becomes an observable violation."""

    _inst = None

    def __init__(self):
        self.n = 0
        self.limit = None
        self.max_seen = 0
        self.codes = set()
        try:
            mon.use_tool_id(BUD_TOOL, "vmon-budget")
        except ValueError:
            pass

        def on_line(code, line):
            if self.limit is not None:
                self.n += 1
                if self.n > self.limit:
                    lim = self.limit
                    self.limit = None
                    raise Diverged(f"{code.co_qualname}: more than {lim} line events")

        mon.register_callback(BUD_TOOL, mon.events.LINE, on_line)

    @classmethod
    def get(cls):
        if cls._inst is None:
            cls._inst = cls()
        return cls._inst

    def watch(self, *specs):
        for spec in specs:
            try:
                for c in resolve(spec):
                    if c not in self.codes:
                        self.codes.add(c)
                        mon.set_local_events(BUD_TOOL, c, mon.events.LINE)
            except Exception:  # noqa: BLE001
                pass

    def run(self, limit, fn, *a, **k):
        self.n = 0
        self.limit = limit
        try:
            return fn(*a, **k)
        finally:
            self.max_seen = max(self.max_seen, self.n)
            self.limit = None


# --------------------------------------------------------------------------------------------------
# failpoints: an interruption injected at a chosen line of the library's own code

FP_TOOL = 3


class Interrupted(BaseException):
    """What the failpoint raises inside the library: like KeyboardInterrupt it does not derive from Exception, so no `except Exception`
    of the library swallows it -- the call under way is abandoned where it stands, as when the user presses Ctrl-C or memory runs out."""


def library_codes():
    """Every code object defined in the modules of the installed decaylanguage package that is loaded (functions, methods, nested functions)."""
    out, seen = [], set()

    def add(code):
        stack = [code]
        while stack:
            c = stack.pop()
            if id(c) in seen:
                continue
            seen.add(id(c))
            out.append(c)
            stack += [k for k in c.co_consts if isinstance(k, types.CodeType)]

    def from_obj(obj, modname, depth=0):
        if isinstance(obj, (classmethod, staticmethod)):
            obj = obj.__func__
        if isinstance(obj, property):
            for f in (obj.fget, obj.fset):
                if f is not None:
                    from_obj(f, modname, depth)
            return
        f = getattr(obj, "__func__", obj)
        k = 0
        while hasattr(f, "__wrapped__") and k < 5:
            f, k = f.__wrapped__, k + 1
        code = getattr(f, "__code__", None)
        if isinstance(code, types.CodeType):
            if "decaylanguage" in (code.co_filename or ""):
                add(code)
            return
        if isinstance(obj, type) and getattr(obj, "__module__", "") == modname and depth < 3:
            for v in list(vars(obj).values()):
                from_obj(v, modname, depth + 1)

    for name, mod in list(sys.modules.items()):
        if mod is None or not (name == "decaylanguage" or name.startswith("decaylanguage.")):
            continue
        for v in list(vars(mod).values()):
            from_obj(v, name)
    return out


class Failpoint:
    """Counts the LINE events of the library's code during a call; `inject(k, fn)` raises `Interrupted` inside the library at the k-th of them."""

    _inst = None

    def __init__(self):
        self.n = 0
        self.at = None
        self.armed = False
        self.where = None
        try:
            mon.use_tool_id(FP_TOOL, "vmon-failpoint")
        except ValueError:
            pass

        def on_line(code, line):
            if self.armed:
                self.n += 1
                if self.at is not None and self.n >= self.at:
                    self.armed = False
                    self.where = f"{code.co_qualname}:{line}"
                    raise Interrupted(self.where)

        mon.register_callback(FP_TOOL, mon.events.LINE, on_line)
        self.codes = []

    @classmethod
    def get(cls):
        if cls._inst is None:
            cls._inst = cls()
        return cls._inst

    def _events(self, on):
        if on:
            self.codes = library_codes()
        for c in self.codes:
            try:
                mon.set_local_events(FP_TOOL, c, mon.events.LINE if on else 0)
            except Exception:  # noqa: BLE001
                pass

    def count(self, fn, *a, **k):
        """-> (result, number of line events of library code during the call)"""
        self._events(True)
        self.n, self.at, self.armed, self.where = 0, None, True, None
        try:
            return fn(*a, **k), self.n
        finally:
            self.armed = False
            self._events(False)

    def inject(self, at, fn, *a, **k):
        """-> ("interrupted", where) | ("returned", result).  Other exceptions of the call propagate."""
        self._events(True)
        self.n, self.at, self.armed, self.where = 0, at, True, None
        try:
            res = fn(*a, **k)
        except Interrupted:
            return "interrupted", self.where
        finally:
            self.armed = False
            self._events(False)
        return "returned", res
