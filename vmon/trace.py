"""sys.monitoring based observation: anchor coverage (did the monitors see the mechanism run?) and
logical step budgets (turn a diverging loop into a Diverged exception inside the code under test)."""
from __future__ import annotations

import importlib
import sys
import types

from .core import Diverged

mon = sys.monitoring
COV_TOOL = 4
BUD_TOOL = 5


def resolve(spec: str):
    """'pkg.mod:Qual.name' -> list of code objects (function + nested functions)."""
    modname, qual = spec.split(":")
    obj = importlib.import_module(modname)
    for part in qual.split("."):
        obj = getattr(obj, part)
    if isinstance(obj, (classmethod, staticmethod)):
        obj = obj.__func__
    if isinstance(obj, property):
        obj = obj.fget
    obj = getattr(obj, "__func__", obj)
    while hasattr(obj, "__wrapped__"):
        obj = obj.__wrapped__
    code = obj.__code__
    out = [code]
    stack = [code]
    while stack:
        c = stack.pop()
        for k in c.co_consts:
            if isinstance(k, types.CodeType):
                out.append(k)
                stack.append(k)
    return out


def _lines(code) -> set:
    return {ln for (_, _, ln) in code.co_lines() if ln is not None and ln != code.co_firstlineno}


class Tracer:
    """PY_START counts and first-hit LINE coverage of the anchored functions."""

    def __init__(self, anchors):
        self.anchors = list(anchors)
        self.codes = {}      # code -> anchor name
        self.calls = {}
        self.hit = {}
        self.total = {}
        self.unresolved = set()
        self.active = False

    def start(self):
        if not self.anchors:
            return
        try:
            mon.use_tool_id(COV_TOOL, "vmon-cov")
        except ValueError:
            return
        self.active = True
        for spec in self.anchors:
            try:
                codes = resolve(spec)
            except Exception:  # noqa: BLE001  anchor renamed / removed in a refactoring: reported as unresolved, not as "never reached"
                self.calls[spec] = 0
                self.hit[spec] = set()
                self.total[spec] = 0
                self.unresolved.add(spec)
                continue
            self.calls[spec] = 0
            self.hit[spec] = set()
            self.total[spec] = len(set().union(*[_lines(c) for c in codes]))
            for c in codes:
                self.codes[c] = spec
            self.codes[codes[0]] = spec
            self._main = getattr(self, "_main", {})
            self._main[codes[0]] = spec

        def on_start(code, off):
            spec = self._main.get(code)
            if spec is not None:
                self.calls[spec] += 1

        def on_line(code, line):
            spec = self.codes.get(code)
            if spec is not None:
                self.hit[spec].add(line)
            return mon.DISABLE

        mon.register_callback(COV_TOOL, mon.events.PY_START, on_start)
        mon.register_callback(COV_TOOL, mon.events.LINE, on_line)
        for c in self.codes:
            ev = mon.events.LINE | (mon.events.PY_START if c in self._main else 0)
            mon.set_local_events(COV_TOOL, c, ev)

    def stop(self):
        if self.active:
            for c in self.codes:
                mon.set_local_events(COV_TOOL, c, 0)
            mon.free_tool_id(COV_TOOL)
            self.active = False

    def report(self):
        return {s: {"calls": self.calls.get(s, 0), "lines_hit": sorted(self.hit.get(s, ())), "lines_total": self.total.get(s, 0),
                    "resolved": s not in self.unresolved}
                for s in self.anchors}


class Budget:
    """Counts LINE events of the given functions while armed; beyond the budget raises Diverged
    *inside* the code under test, so a loop that would spin forever becomes an observable violation."""

    _inst = None

    def __init__(self):
        self.n = 0
        self.limit = None
        self.max_seen = 0
        self.codes = set()
        try:
            mon.use_tool_id(BUD_TOOL, "vmon-budget")
        except ValueError:
            pass

        def on_line(code, line):
            if self.limit is not None:
                self.n += 1
                if self.n > self.limit:
                    lim = self.limit
                    self.limit = None
                    raise Diverged(f"{code.co_qualname}: more than {lim} line events")

        mon.register_callback(BUD_TOOL, mon.events.LINE, on_line)

    @classmethod
    def get(cls):
        if cls._inst is None:
            cls._inst = cls()
        return cls._inst

    def watch(self, *specs):
        for spec in specs:
            try:
                for c in resolve(spec):
                    if c not in self.codes:
                        self.codes.add(c)
                        mon.set_local_events(BUD_TOOL, c, mon.events.LINE)
            except Exception:  # noqa: BLE001
                pass

    def run(self, limit, fn, *a, **k):
        self.n = 0
        self.limit = limit
        try:
            return fn(*a, **k)
        finally:
            self.max_seen = max(self.max_seen, self.n)
            self.limit = None
